"""Correspondence on histories (C04, C08, C19 share it): real pipelines with cache layers vs the Coq machine over the
extracted compiled graphs and the concrete store of Model/Store.v; plus oracles on the implementation."""
import collections
import json
import os

import lib
from props import enginecorr

CODES = {1: 'result', 2: 'log', 3: 'trace', 4: 'counts', 5: 'hash'}


def ckind(k):
    if k[0] == 'disk':
        return 'KDisk'
    return 'KRam (' + ('None' if k[1] is None else f'Some {k[1]}') + ')'


def jkey(k):
    if isinstance(k, bool):
        return {'b': k}
    if isinstance(k, int):
        return {'i': k}
    if isinstance(k, float):
        return {'f': int(k)}
    return {'s': k}


def literal(case):
    gs = []
    for g in case['graphs']:
        gs.append('{| hg := ' + lib.cgraph(g['nodes']) + f'; hout := {g["out"]}; hcounts := '
                  + lib.clist([f'({n}, {c})' for n, c in g['counts']]) + ' |}')
    ops = []
    for op, ob in zip(case['ops'], case['obs']):
        if op['op'] == 'call':
            g = case['graphs'][ob['graph']]
            ins = lib.clist([f'({i}, {lib.cval(jkey(op["key"]))})' for i in g['signature']])
            ops.append(f'HCall {ob["graph"]} {{| xc_ins := {ins}; xc_bad := ' + lib.clist([lib.cstr(b) for b in ob['bad']])
                       + '; xc_res := ' + lib.cxres(ob['res']) + '; xc_log := ' + lib.clist([lib.ccall(c) for c in ob['log']])
                       + '; xc_trace := ' + lib.clist([lib.ctev(e) for e in ob['trace']]) + '; xc_hash := ' + lib.chash(ob.get('hash')) + ' |}')
        elif op['op'] == 'clear':
            ops.append('HClear ' + lib.clist([str(c) for c in ob['cleared']]))
    caches = lib.clist([f'({i}, {ckind(k)})' for i, k in enumerate(case['caches'])])
    return '{| hgraphs := ' + lib.clist(gs) + f'; hcaches := {caches}; hops := ' + lib.clist(ops) + ' |}'


def run(ctx, n_quick=250, n_thorough=3000, ops=14, extra=()):
    tier, seed, work = ctx['tier'], ctx['seed'], ctx['work']
    n = n_quick if tier == 'quick' else n_thorough
    out = os.path.join(work, 'hist.json')
    rc, log = lib.run_impl('histories.py', ['--seed', str(seed), '--n', str(n), '--ops', str(ops if tier == 'quick' else 40),
                                            '--out', out, '--work', os.path.join(work, 'hw')] + list(extra), 2400)
    if rc != 0:
        return {'cases': [], 'mismatch': [], 'errors': ['implementation harness failed: ' + log[-1200:]], 'modelled': 0}
    cases = json.load(open(out))['cases']
    modelled = [c for c in cases if c['unsupported'] is None and all(g is not None for g in c['graphs'])]
    lits = [literal(c) for c in modelled]
    shards = lib.write_shards(ctx['pid'], 'hist', ['Values', 'VM', 'Edges', 'Store', 'CheckLib'], 'hcase', 'check_history', lits, per=40)
    total, bad, errors = lib.run_shards(shards)
    if total != len(modelled) and not errors:
        errors.append(f'Coq checked {total} of {len(modelled)} histories')
    mismatch = [{'index': i, 'kind': CODES.get(code % 10, str(code)), 'op': code // 10, 'case': modelled[i]} for i, code in bad]
    return {'cases': cases, 'mismatch': mismatch, 'errors': errors, 'modelled': len(modelled)}


def call_ops(case):
    return [(op, ob) for op, ob in zip(case['ops'], case['obs']) if op['op'] == 'call']


def oracle_transparent(cases):
    """C04: every call returns what the cache-free pipeline returns, or propagates the injected user exception"""
    viol, n = [], 0
    for i, c in enumerate(cases):
        columns = any(d['t'] == 'columns' for v in c['variants'] for d in v)
        for op, ob in call_ops(c):
            if columns and op['key'] not in c['ids']:
                continue        # a column cache serves the ids of the dataset only: other keys are rejected by design
            n += 1
            res, ref, ref_nf = ob['res'], ob['ref'], ob['ref_nofail']
            ok = (res == ref) or ('val' in res and res == ref_nf) or ('exc' in res and res['exc'].startswith('User:') and ob['bad'] == [res['exc'][5:]])
            if 'exc' in res and res['exc'] in ('Internal',):
                ok = False
            if not ok:
                sig = 'oracle:not-transparent'
                if has_ram(c) and pyeq_collision(c, op):
                    sig = 'F3:pyeq-collision-in-ram-cache'
                if (ob.get('exc_detail', '').startswith('RuntimeError: generator raised StopIteration') and ob.get('user_exc') == 'UserStop'
                        and any(d['t'] in ('columns', 'filter', 'groupby') for v in c['variants'] for d in v)):
                    sig = 'F8:user-StopIteration-inside-dataset-wide-edge'
                viol.append({'signature': sig, 'case': _slim(c), 'observed': res, 'expected': ref,
                             'what': f'history {i}: {op} returned {json.dumps(res)[:200]} but the pipeline without cache layers gives '
                                     f'{json.dumps(ref)[:200]}'})
                break
    return viol, n


def oracle_ids_stable(cases):
    """the ids a pipeline lists are those of its source (a Merge: the sorted union), before and after every call"""
    viol, n = [], 0
    for i, c in enumerate(cases):
        for op, ob in call_ops(c):
            if 'ids_now' not in ob:
                continue
            n += 1
            head = c['variants'][op['variant']][0]
            want = list(head['ids']) if head['t'] == 'source' else sorted(x for p_ in head['parts'] for x in p_[0]['ids'])
            if ob['ids_now'] != want:
                viol.append({'signature': 'oracle:ids-changed', 'case': _slim(c), 'observed': ob['ids_now'], 'expected': want,
                             'what': f'history {i}: after {op} the pipeline lists the ids {ob["ids_now"]}, its source lists {want}'})
                break
    return viol, n


def oracle_once_per_call(cases):
    """C03: within one call no user function runs twice on the same arguments (every function symbol is used by one field only)"""
    viol, n = [], 0
    for i, c in enumerate(cases):
        for op, ob in call_ops(c):
            n += 1
            seen, dup = set(), None
            for entry in ob.get('log', []):
                k = json.dumps(entry, sort_keys=True)
                if k in seen:
                    dup = entry
                    break
                seen.add(k)
            if dup is not None:
                viol.append({'signature': 'oracle:double-evaluation', 'case': _slim(c), 'observed': dup,
                             'what': f'history {i}: {op}: the user function {dup[0]} ran twice on the same arguments within one call'})
                break
    return viol, n


def has_ram(c):
    def walk(spec):
        for d in spec:
            if d['t'] == 'ram':
                return True
            if d['t'] == 'merge' and any(walk(p) for p in d['parts']):
                return True
        return False
    return any(walk(v) for v in c['variants'])


def pyeq_collision(c, op):
    """an earlier call of the history used a key that is == to this one but of another type"""
    k = op['key']
    for o in c['ops']:
        if o is op:
            break
        if o['op'] == 'call' and not isinstance(o['key'], str) and not isinstance(k, str) and o['key'] == k and type(o['key']) is not type(k):
            return True
    return False


def oracle_lru_bound(cases):
    viol, n = [], 0
    for i, c in enumerate(cases):
        for op, ob in zip(c['ops'], c['obs']):
            for cid, ln, size in ob['ram_sizes']:
                n += 1
                if size is not None and ln > size:
                    viol.append({'signature': 'oracle:lru-bound', 'case': _slim(c), 'observed': ln, 'expected': f'<= {size}',
                                 'what': f'history {i}: after {op} a CacheToRam(size={size}) table holds {ln} entries'})
                    return viol, n
    return viol, n


def _slim(c):
    return {'variants': c['variants'], 'ops': c['ops'], 'ids': c['ids'], 'fields': c['fields'],
            'obs': [{k: v for k, v in o.items() if k in ('res', 'ref', 'ref_nofail', 'ram_sizes', 'bad', 'exc_detail', 'user_exc')} for o in c['obs']]}


def distribution(cases):
    layer_kinds = collections.Counter(d['t'] + (':' + str(d.get('size')) if d['t'] == 'ram' else '') for c in cases for d in c['variants'][0])
    ops = collections.Counter(op['op'] for c in cases for op in c['ops'])
    outcomes = collections.Counter(('exc:' + ob['res']['exc'].split(':')[0]) if 'exc' in ob['res'] else 'value'
                                   for c in cases for _, ob in call_ops(c))
    hits = sum(1 for c in cases for _, ob in call_ops(c) if not ob['log'])
    return {'layers': dict(layer_kinds), 'ops': dict(ops), 'call_outcomes': dict(outcomes), 'calls_running_no_user_function': hits,
            'with_variants': sum(1 for c in cases if len(c['variants']) > 1), 'histories': len(cases)}


def summarise(r, property_level, pid, oracles):
    cases = r['cases']
    viol = [{'signature': 'harness-error', 'what': e, 'case': None} for e in r['errors']]
    checks = 0
    for orc in oracles:
        v, n = orc(cases)
        per = collections.Counter()
        for x in v:
            per[x['signature']] += 1
            if per[x['signature']] <= 2:
                viol.append(x)
        checks += n
    concrete = [m for m in r['mismatch'] if m['kind'] in property_level]
    other = [m for m in r['mismatch'] if m['kind'] not in property_level]
    for m in concrete[:2]:
        viol.append({'signature': f'corr:{m["kind"]}', 'case': _slim(m['case']),
                     'what': f'{pid}: model and implementation disagree on the {m["kind"]} of operation {m["op"]} of history {m["index"]}'})
    if other and not concrete and not any(v['signature'].startswith('oracle') for v in viol):
        m = other[0]
        viol.append({'signature': f'corr-unvalidated:{m["kind"]}', 'case': _slim(m['case']),
                     'what': f'{pid}: model no longer validated: {len(other)} histories disagree on {sorted({x["kind"] for x in other})} '
                             f'(first: history {m["index"]}, operation {m["op"]})'})
    distinct = {lib.case_hash([c['variants'], c['ops']]) for c in cases if len(call_ops(c)) >= 2}
    return {'evaluations': sum(len(c['ops']) for c in cases), 'distinct_nontrivial': len(distinct),
            'rule': 'random pipelines (Source or Merge of two Sources, 1-3 Transform layers with parameters, the Crop pattern and '
                    'hash-by-value fields, CacheToRam size None/1/2/3 and CacheToDisk on two roots at up to 3 positions, 40% with a '
                    'variant pipeline differing in one function and sharing the roots) x histories of call/clear/rebuild/fail; the '
                    'compiled graphs are extracted from the real layers and run by the Coq machine with the concrete store; '
                    'distinct by spec+ops, non-trivial = at least 2 calls',
            'samples': [_slim(c) for c in cases[-1:]], 'mismatches': len(r['mismatch']),
            'distribution': dict(distribution(cases), modelled_histories=r['modelled']), 'violations': viol, 'oracle_checks': checks}
