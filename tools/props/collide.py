"""Interface-level oracle of C05 / C06: within a family of pipelines that differ in one ingredient of a dataset-wide layer,
equal digests of node hashes mean equal values."""
import json
import os

import lib


def add(ctx, res, tag):
    n = 60 if ctx['tier'] == 'quick' else 600
    out = os.path.join(ctx['work'], 'collide.json')
    rc, log = lib.run_impl('collide.py', ['--seed', str(ctx['seed']), '--n', str(n), '--out', out], 1500)
    extra, k = [], 0
    if rc != 0:
        extra.append({'signature': 'harness-error', 'what': log[-800:], 'case': None})
    else:
        for fi, f in enumerate(json.load(open(out))['families']):
            seen = {}
            for v in f['variants']:
                if 'error' in v:
                    extra.append({'signature': 'harness-error', 'what': f'collide family {fi} ({f["kind"]}), variant {v["variant"]}: {v["error"]}', 'case': None})
                    continue
                for r in v['rows']:
                    if 'exc' in r:
                        continue
                    k += 1
                    if 'reference' in r and r['reference'] != r['value']:
                        extra.append({'signature': 'oracle:stale-entry-served-across-pipelines',
                                      'case': {'kind': f['kind'], 'spec': f['spec'], 'ids': f['ids'], 'variant': v['variant'], 'field': r['field'], 'args': r['args']},
                                      'observed': r['value'], 'expected': r['reference'],
                                      'what': f'{tag}: {f["kind"]} family {fi}: after the variants before it had filled the shared store, "{v["variant"]}" returns '
                                              f'{json.dumps(r["value"])[:120]} for {r["field"]}{tuple(r["args"])}; without caches it returns {json.dumps(r["reference"])[:120]}'})
                    d = r['digest']
                    if d in seen and seen[d][0] != r['value']:
                        extra.append({'signature': 'oracle:node-hash-collision-across-pipelines',
                                      'case': {'kind': f['kind'], 'spec': f['spec'], 'ids': f['ids'], 'variants': [seen[d][1], v['variant']], 'field': r['field'], 'args': r['args']},
                                      'observed': {'digest': d, 'values': [seen[d][0], r['value']]},
                                      'what': f'{tag}: {f["kind"]} family {fi} over {f["spec"][0]["ids"]}: {r["field"]}{tuple(r["args"])} has the same node hash digest in the '
                                              f'variants "{seen[d][1]}" and "{v["variant"]}" but different values'})
                    seen.setdefault(d, (r['value'], v['variant']))
        for si, sc in enumerate(json.load(open(out)).get('shared_folders', []) if tag == 'C05' else []):
            for o in sc['orders']:
                for r in o['rows']:
                    k += 1
                    if r.get('value') != r['reference']:
                        f11 = sc['function'] == 'builtins.tuple'
                        extra.append({'signature': 'F11:column-shard-keyed-like-tuple-application' if f11 else 'oracle:stale-entry-served-across-pipelines',
                                      'case': {'ids': sc['ids'], 'shard': sc['shard'], 'function': sc['function'], 'order': o['order'], 'field': r['field'], 'key': r['key']},
                                      'observed': r.get('value', r.get('exc')), 'expected': r['reference'],
                                      'what': f'{tag}: Source(ids={sc["ids"]}, a) >> CacheColumns("a", shard_size={sc["shard"]}) and Source >> Transform(b={sc["function"]}(a)) >> '
                                              f'CacheToDisk("b") over the same folders, {o["order"]}: {r["field"]}({r["key"]!r}) gives '
                                              f'{json.dumps(r.get("value", r.get("exc")))[:100]}, without caches {json.dumps(r["reference"])[:100]}'})
                        break
        for ei, ex in enumerate(json.load(open(out)).get('external', []) if tag in ('C05', 'C04') else []):
            if 'error' in ex:
                extra.append({'signature': 'harness-error', 'what': f'external scenario {ei}: {ex["error"]}', 'case': None})
                continue
            seen = {}
            for r in ex['rows']:
                k += 1
                case = {'wrapped': 'External(object with methods image, mask, spacing and property ids, inputs=["i"])', 'cache': ex['kind'], 'cached_fields': ex['fields'],
                        'requests_so_far': [[x['field'], x['key']] for x in ex['rows'][:ex['rows'].index(r) + 1]]}
                if r.get('value') != r['reference']:
                    extra.append({'signature': 'oracle:stale-entry-served-across-fields', 'case': case, 'observed': r.get('value', r.get('exc')), 'expected': r['reference'],
                                  'what': f'{tag}: the methods of one object wrapped by External behind a {ex["kind"]} cache of {ex["fields"]}: {r["field"]}({r["key"]!r}) gives '
                                          f'{r.get("value", r.get("exc"))!r}, without the cache {r["reference"]!r}'})
                    break
                d = r.get('digest')
                if tag == 'C05' and d in seen and seen[d][0] != r['reference']:
                    extra.append({'signature': 'oracle:node-hash-collision-across-fields', 'case': case, 'observed': {'digest': d, 'fields': [seen[d][1], r['field']]},
                                  'what': f'{tag}: External: the fields {seen[d][1]} and {r["field"]} of one wrapped object have the same node hash for the id {r["key"]!r} and different values'})
                    break
                seen.setdefault(d, (r['reference'], r['field']))
    per, outv = {}, []
    for x in extra:
        per[x['signature']] = per.get(x['signature'], 0) + 1
        if per[x['signature']] <= 2:
            outv.append(x)
    res['violations'] = list(res.get('violations', [])) + outv
    res['oracle_checks'] = res.get('oracle_checks', 0) + k
    res['evaluations'] = res.get('evaluations', 0) + k
    res['rule'] = res.get('rule', '') + ('; plus families of dataset pipelines differing in what GroupBy groups by, a Filter predicate or a hash-by-value function below it, '
                                        'a Merge routing, a Split function: equal digests of node hashes (ids and every field on every key) must mean equal values'
                                        + ('; a column cache and a disk cache of a dependent field over the same folders, filled in both orders' if tag == 'C05' else ''))
    return res
