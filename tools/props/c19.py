"""C19: pickling a compiled function preserves its behaviour and its hashes."""
import json
import os

import lib

MODEL_DEPS = ['CheckLib', 'Pickle']
KERNELS = ('MemoryCache', 'lib_callables', 'pickling_hooks', 'Graph')
TRUSTED = ['Coq 8.16.1 kernel; vm_compute in case shards, the Example and the finite table of library callables',
           'the VM / store model of C01-C04 (Model/VM.v, Store.v, Edges.v with the regenerated generators); Model/Pickle.v: pickling is the '
           'identity on the graph and MemoryCache.__reduce__ (regenerated) on RAM caches',
           'tools/translate.py: MemoryCache.__reduce__, the table of callables the layers store in edges (lambda / closure / module-level / '
           'user), the list of classes with pickling hooks of their own',
           'tools/pyharness/pickling.py: pickle round trips of compiled functions of random pipelines; graph structure, entry counts, cache '
           'objects, signature, values, digests and failures of original and copy compared']
ASSUMPTIONS = ['user callables are importable (module-level functions and instances of module-level classes): the premise of C19',
               'the standard pickle module copies an object without hooks attribute by attribute (not modelled further)',
               'call_ok of C04: acyclic graph, defined semantics, no numeric leaves in cache keys (F3)']
LISTED = {'source', 'transform', 'apply', 'chain', 'merge', 'filter', 'keep', 'drop', 'groupby', 'checkids', 'ram', 'disk', 'columns', 'silent', 'mixin'}
KIND = {'global': 'Global', 'instance': 'User', 'local': 'Lambda'}


def pkc(c):
    if c['kind'] == 'disk':
        return '{| pc_kind := KDisk; pc_lru := false; pc_entries := 0 |}'
    size = 'None' if c['size'] is None else f'(Some {c["size"]})'
    return f'{{| pc_kind := KRam {size}; pc_lru := {str(c["lru"]).lower()}; pc_entries := {c["entries"]} |}}'


def run(ctx):
    n = 150 if ctx['tier'] == 'quick' else 1500
    shards_n = 6 if ctx['tier'] == 'quick' else 12
    from concurrent.futures import ThreadPoolExecutor
    outs = [os.path.join(ctx['work'], f'pk{k}.json') for k in range(shards_n)]
    works = [os.path.join(ctx['work'], f'w{k}') for k in range(shards_n)]
    for w in works:
        os.makedirs(w, exist_ok=True)

    def one(k):
        return lib.run_impl('pickling.py', ['--seed', str(ctx['seed'] * 100 + k), '--n', str(n // shards_n), '--out', outs[k], '--work', works[k]], 3000)
    with ThreadPoolExecutor(max_workers=shards_n) as ex:
        logs = list(ex.map(one, range(shards_n)))
    viol, cases = [], []
    for k, (rc, log) in enumerate(logs):
        if rc != 0:
            viol.append({'signature': 'harness-error', 'what': log[-800:], 'case': None})
        else:
            cases += json.load(open(outs[k]))['cases']
    lits, owners = [], []
    stats = {'functions': 0, 'pickled': 0, 'rows': 0, 'failing_rows': 0, 'ram_caches_filled_before': 0, 'layer_kinds': {}}
    for ci, c in enumerate(cases):
        for kd in c.get('kinds', []):
            stats['layer_kinds'][kd] = stats['layer_kinds'].get(kd, 0) + 1
        if 'build_exc' in c:
            continue
        for f in c['functions']:
            if 'compile_exc' in f:
                continue
            stats['functions'] += 1
            case = {'spec': c['spec'], 'fields': f['fields']}
            def v(sig, what, obs=None):
                viol.append({'signature': sig, 'case': case, 'observed': obs, 'what': f'C19: pipeline {ci}, fields {f["fields"]}: {what}'})
            ok = 'pickle_exc' not in f
            local = [k for k in f['callables'] if not k[2]]
            if not ok:
                # the property: with picklable user functions, the listed layer kinds must pickle
                lib_local = [k for k in local if k[1].startswith('connectome.')]
                if set(c['kinds']) <= LISTED and (lib_local or not local):
                    v('F5:library-local-callable-not-picklable' if lib_local else 'oracle:pickling-fails',
                      f'pickle.dumps fails although every user callable is importable: {f["pickle_exc"]}'
                      + (f' (the edges hold {sorted({k[1] for k in lib_local})})' if lib_local else ''), f['pickle_exc'])
            else:
                stats['pickled'] += 1
                stats['ram_caches_filled_before'] += sum(1 for x in f['caches_before'] if x['kind'] == 'ram' and x['entries'])
                if f['signature'][0] != f['signature'][1]:
                    v('oracle:signature-differs', f'signature {f["signature"][0]} became {f["signature"][1]}')
                if not f['shape_equal']:
                    v('oracle:graph-differs', 'the copy has another graph (nodes, edges, functions or entry counts)',
                      [r for r in zip(*f['shape']) if r[0] != r[1]][:4])
                # Graph.hash() (the static hash) is NOT part of C19: with a nested static graph (GroupBy) the copy's stored inner hash holds
                #  a copy of the module-level placeholder object, so it differs from the original's.  Counted, not reported.
                stats['static_hash_differs'] = stats.get('static_hash_differs', 0) + (f.get('static_hash_equal') is False)
                for a, b in zip(f['caches_before'], f['caches_copy']):
                    if a['kind'] == 'disk' and (a['index'], a['storage'], a['serializer']) != (b.get('index'), b.get('storage'), b.get('serializer')):
                        v('oracle:disk-cache-points-elsewhere', f'disk cache {a} became {b}')
                for r in f['rows']:
                    stats['rows'] += 1
                    a, b = r['copy'], r['orig']
                    stats['failing_rows'] += 'exc' in b
                    if a.get('val') != b.get('val') or a.get('exc') != b.get('exc'):
                        v('oracle:value-differs', f'key {r["key"]}: the copy gives {a.get("val", a.get("exc"))!r}, the original {b.get("val", b.get("exc"))!r}', r)
                    if a.get('digest') != b.get('digest') or a.get('digest_exc') != b.get('digest_exc'):
                        v('oracle:digest-differs', f'key {r["key"]}: persistent digests differ', r)
            lits.append('{| pk_callables := ' + lib.clist([KIND[k[0]] if k[2] or k[0] != 'instance' else 'Lambda' for k in f['callables']])
                        + f'; pk_succeeded := {str(ok).lower()}; pk_before := ' + lib.clist([pkc(x) for x in f.get('caches_before', [])])
                        + '; pk_original_after := ' + lib.clist([pkc(x) for x in f.get('caches_original_after', [])])
                        + '; pk_copy := ' + lib.clist([pkc(x) for x in f.get('caches_copy', [])]) + ' |}')
            owners.append((ci, c, f))
    shards = lib.write_shards(ctx['pid'], 'pk', ['Values', 'MemGen', 'MemPickleGen', 'PickleGen', 'Store', 'Pickle', 'CheckLib'], 'pk_case', 'check_pickle', lits, per=300)
    total, bad, errors = lib.run_shards(shards)
    for e in errors:
        viol.append({'signature': 'harness-error', 'what': e, 'case': None})
    for j, code in bad[:6]:
        ci, c, f = owners[j]
        viol.append({'signature': f'corr:pickle:{code}', 'case': {'spec': c['spec'], 'fields': f['fields']},
                     'observed': {'callables': f['callables'], 'pickle_exc': f.get('pickle_exc'), 'before': f.get('caches_before'), 'copy': f.get('caches_copy')},
                     'what': f'C19: pipeline {ci}, fields {f["fields"]}: the round trip is not what Model/Pickle.v says (code 1: pickling '
                             f'{"failed" if "pickle_exc" in f else "succeeded"} against the kinds of the stored callables, 2: the caches of the copy, '
                             '3: the caches of the original changed)'})
    per, outv = {}, []
    for x in viol:
        per[x['signature']] = per.get(x['signature'], 0) + 1
        if per[x['signature']] <= 2:
            outv.append(x)
    sample = None
    if owners:
        ci, c, f = owners[0]
        sample = {'spec': c['spec'], 'fields': f['fields'], 'pickled': 'pickle_exc' not in f, 'caches_before': f.get('caches_before'), 'caches_copy': f.get('caches_copy')}
    return {'evaluations': stats['rows'] + len(lits), 'distinct_nontrivial': len({json.dumps([c['spec'], f['fields']], sort_keys=True) for _, c, f in owners}),
            'rule': 'random pipelines (sources, Merge, transforms with parameters, Apply, nested chains, Filter by predicate / keep / drop, GroupBy, CheckIds, '
                    'RAM / disk / column caches) with importable user callables; for every field, ids, and a pair of fields: calls on the original, '
                    'pickle round trip, then every key and an unknown key on copy and original; distinct by (pipeline, fields)',
            'samples': [sample], 'distribution': stats, 'violations': outv, 'mismatches': len(bad), 'oracle_checks': stats['rows'] * 2 + stats['pickled'] * 4}
