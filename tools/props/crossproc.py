"""Oracle (C07, C08): disk caches filled under one PYTHONHASHSEED are hit under others: no user function runs, no entry is added, values equal."""
import json
import os
import shutil

import lib


def add(ctx, res, tag):
    work = os.path.join(ctx['work'], 'xproc')
    shutil.rmtree(work, ignore_errors=True)
    os.makedirs(work, exist_ok=True)
    extra, k = [], 0
    runs = []
    for phase, hs in (('fill', 1), ('read', 2), ('read', 3), ('read', 1)):
        out = os.path.join(work, f'{phase}{hs}.json')
        rc, log = lib.run_impl('crossproc.py', ['--phase', phase, '--seed', str(ctx['seed']), '--out', out, '--work', work], 600, hashseed=hs)
        if rc != 0:
            extra.append({'signature': 'harness-error', 'what': log[-800:], 'case': None})
            break
        runs.append((phase, hs, json.load(open(out))['layouts']))
    if len(runs) == 4:
        fill = runs[0][2]
        for phase, hs, lay in runs[1:]:
            for f, r in zip(fill, lay):
                k += 1
                if 'exc' in f or 'exc' in r:
                    extra.append({'signature': 'oracle:cross-interpreter-run-fails', 'case': {'layout': r['layout']}, 'what': f'{tag}: {r["layout"]}: {f.get("exc")} / {r.get("exc")}'})
                    continue
                if r['values'] != f['values'] or r['calls'] != 0 or r['entries'] != f['entries']:
                    extra.append({'signature': 'oracle:disk-cache-missed-by-another-interpreter', 'case': {'layout': r['layout'], 'filled_with_PYTHONHASHSEED': 1, 'read_with_PYTHONHASHSEED': hs},
                                  'observed': {'ran': r['ran'], 'calls': r['calls'], 'entries_before': f['entries'], 'entries_after': r['entries'], 'same_values': r['values'] == f['values']},
                                  'what': f'{tag}: {r["layout"]}: filled by an interpreter with PYTHONHASHSEED=1 ({f["calls"]} calls of user functions, {f["entries"]} entries); '
                                          f'an interpreter with PYTHONHASHSEED={hs} over the same folders ran {r["ran"]} ({r["calls"]} calls) and left {r["entries"]} entries'})
    shutil.rmtree(work, ignore_errors=True)
    per, outv = {}, []
    for x in extra:
        per[x['signature']] = per.get(x['signature'], 0) + 1
        if per[x['signature']] <= 2:
            outv.append(x)
    res['violations'] = list(res.get('violations', [])) + outv
    res['oracle_checks'] = res.get('oracle_checks', 0) + k
    res['evaluations'] = res.get('evaluations', 0) + k
    res['rule'] = res.get('rule', '') + '; plus disk and column caches (below Filter.keep / drop / GroupBy, under a RAM cache) filled under one PYTHONHASHSEED and read under others'
    return res
