"""Correspondence for the dataset-wide layers (C14-C17): tools/pyharness/relational.py vs Model/Relational.v, plus oracles."""
import hashlib
import json
import os

import lib

MODES = {'inner': 'JInner', 'left': 'JLeft', 'right': 'JRight', 'outer': 'JOuter'}


def to_hash_id(values):
    """independent re-implementation of the documented composite key: sha256 over the sha256 digests of the parts"""
    algo = hashlib.sha256()
    for v in values:
        algo.update(hashlib.sha256(v.encode()).digest())
    return algo.hexdigest()


def sl(xs):
    return lib.clist([lib.cstr(x) for x in xs])


def opt(x, f=str):
    return 'None' if x is None else f'Some {f(x)}'


def app_sym(j):
    return j['a'][0] if isinstance(j, dict) and 'a' in j else None


def app_arg(j, k=0):
    a = j['a'][1][k]
    return a.get('s') if isinstance(a, dict) else None


# ------------------------------------------------------------------ literals + oracles per kind
def merge(c, viol, tag):
    sets = [d['ids'] for d in c['datasets']]
    built = 'build_exc' not in c
    rows = []
    if built:
        f0 = c['common'][0]
        for row in c['rows']:
            r = row['res']
            if 'val' in r:
                sym = app_sym(r['val'])
                owner = int(sym[1:]) // 10
                if r['ran'] != [sym]:
                    viol.append(v('oracle:merge-ran-other-branch', c, f'{tag}: {row["field"]}({row["id"]!r}) ran {r["ran"]}, owner function is {sym}'))
                if r.get('hash_equals_owner') is False:
                    viol.append(v('oracle:merge-hash-differs-from-owner', c, f'{tag}: the node hash of {row["field"]}({row["id"]!r}) differs from the owning dataset\'s'))
                if app_arg(r['val']) != row['id']:
                    viol.append(v('oracle:merge-wrong-entry', c, f'{tag}: {row["field"]}({row["id"]!r}) returned the entry of {app_arg(r["val"])!r}'))
            else:
                owner = None
            if row['field'] == f0:
                rows.append(f'({lib.cstr(row["id"])}, {opt(owner)})')
        for row in c.get('id_rows', []):
            inside = row['id'] in c['ids']
            if inside and row['res'].get('val') != {'s': row['id']}:
                viol.append(v('oracle:merge-id-field', c, f'{tag}: the key field id({row["id"]!r}) of the merged dataset gives {row["res"]}'))
            if not inside and 'val' in row['res']:
                viol.append(v('oracle:merge-id-field', c, f'{tag}: id({row["id"]!r}) returns {row["res"]["val"]} although {row["id"]!r} is not among the merged ids {c["ids"]}'))
        if 'ids_exc' in c:
            viol.append(v('oracle:merge-ids-fail', c, f'{tag}: the key property `{c.get("ids_name", "ids")}` of the merged dataset raises {c["ids_exc"]}'))
        want = sorted(set.intersection(*[set(d['fields']) for d in c['datasets']]) | {c.get('ids_name', 'ids'), 'id'})
        if sorted(c['fields']) != want:
            viol.append(v('oracle:merge-fields', c, f'{tag}: merged fields {sorted(c["fields"])}, expected the common ones {want}'))
    return ('{| mg_sets := ' + lib.clist([sl(s) for s in sets]) + f'; mg_built := {str(built).lower()}; mg_ids := {sl(c.get("ids", []))}; mg_rows := '
            + lib.clist(rows) + ' |}')


def flt(c, viol, tag):
    ids = c['ids']
    w = c['which']
    t1, t2 = c['truth'], c['truth2']
    if w in ('pred-one', 'pred-id'):
        truth = {i: t1[i] for i in ids}
    elif w in ('pred-two', 'stacked'):
        truth = {i: t1[i] and t2[i] for i in ids}
    elif w == 'keep':
        truth = {i: i in c['sel'] for i in ids}
    else:
        truth = {i: i not in c['sel'] for i in ids}
    if 'build_exc' in c:
        viol.append(v('oracle:filter-build-failed', c, f'{tag}: Filter ({w}) failed to build: {c["build_exc"]}'))
        return None
    cb = c.get('checkids_before_filter')
    if cb and (cb.get('exc') or not cb.get('same_ids') or not cb.get('same_hash')):
        viol.append(v('oracle:checkids-not-transparent', c, f'{tag}: a CheckIds() in front of the Filter changes the kept ids or their hash: {cb}'))
    ru = c.get('reuse')
    if ru and ru['got'] != ru['want']:
        viol.append(v('oracle:filter-object-follows-an-earlier-dataset', c, f'{tag}: the Filter object ({w}) was first connected to a dataset with ids {ids}; connected '
                                                                       f'afterwards to another dataset with ids {ru["ids2"]} it keeps {ru["got"]} instead of {ru["want"]}'))
    for row in c['rows']:
        if row['id'] in c['new_ids'] or True:
            if not row['same_value'] or not row['same_hash']:
                viol.append(v('oracle:filter-changed-other-field', c, f'{tag}: Filter changed value or hash of {row["field"]}({row["id"]!r})'))
    for row in c.get('checkids_twice', []):
        ok = ('val' in row['res']) if row['inside'] else (row['res'].get('exc') == 'KeyError')
        if not ok:
            viol.append(v('oracle:checkids-after-checkids', c, f'{tag}: source >> CheckIds() >> Filter >> CheckIds(): id {row["id"]!r} (kept by the filter: {row["inside"]}) gave {row["res"]}'))
    for row in c['checkids']:
        ok = ('val' in row['res']) if row['inside'] else (row['res'].get('exc') == 'KeyError')
        if not ok:
            viol.append(v('oracle:checkids', c, f'{tag}: CheckIds: id {row["id"]!r} inside={row["inside"]} gave {row["res"]}'))
        if row['inside'] and (row.get('same_value') is False or row.get('same_hash') is False):
            viol.append(v('oracle:checkids-not-transparent', c, f'{tag}: CheckIds changed value or hash for {row["id"]!r}'))
    return ('{| fl_ids := ' + sl(ids) + '; fl_truth := ' + lib.clist([f'({lib.cstr(i)}, {str(truth[i]).lower()})' for i in ids])
            + f'; fl_new := {sl(c["new_ids"])} |}}')


def join(c, viol, tag):
    def side(s):
        pre = 'K:' if c.get('custom_to_key') else ''
        return [(i, pre + s['keys'][i][0] if len(s['keys'][i]) == 1 else to_hash_id(s['keys'][i])) for i in s['ids']]
    if c.get('int_keys'):
        lk = {c['left']['keys'][i][0] for i in c['left']['ids']}
        rk = {c['right']['keys'][i][0] for i in c['right']['ids']}
        want = {'inner': lk & rk, 'left': lk, 'right': rk, 'outer': lk | rk}[c['how']]
        if 'build_exc' in c or c['ids'] != sorted(want):
            viol.append(v('oracle:join-ids', c, f'{tag}: how={c["how"]} over the integer keys {sorted(lk)} and {sorted(rk)}: ids are {c.get("ids", c.get("build_exc"))}, expected {sorted(want)}'))
        return None
    L, R = side(c['left']), side(c['right'])
    built = 'build_exc' not in c
    rows = []
    if built:
        for row in c['rows']:
            def src(r):
                if 'val' in r:
                    return None if r['val'] is None else app_arg(r['val'])
                return '!' + r['exc']
            lv, rv = src(row['lval']), src(row['rval'])
            inside = row['id'] in c['ids']
            if inside:
                if (lv or '').startswith('!') or (rv or '').startswith('!'):
                    viol.append(v('oracle:join-field-raised', c, f'{tag}: id {row["id"]!r} is in the join but a field raised ({lv}, {rv})'))
                    lv = None if (lv or '').startswith('!') else lv
                    rv = None if (rv or '').startswith('!') else rv
                # the key field comes from whichever side has the entry
                if 'val' not in row['key'] or row['key']['val'] is None:
                    viol.append(v('oracle:join-key-field', c, f'{tag}: key field of id {row["id"]!r}: {row["key"]}'))
                rows.append(f'({lib.cstr(row["id"])}, ({opt(lv, lib.cstr)}, {opt(rv, lib.cstr)}))')
            else:
                served = [f for f in ('lval', 'rval', 'key') if 'val' in row[f]]          # also a None: an id outside the join has no fields
                if served:
                    viol.append(v('F6:join-serves-id-outside-join', c, f'{tag}: how={c["how"]}: id {row["id"]!r} is not among the join ids {c["ids"]} but {served} return a value'))
    return ('{| jn_how := ' + MODES[c['how']] + '; jn_left := ' + lib.clist([f'({lib.cstr(a)}, {lib.cstr(b)})' for a, b in L])
            + '; jn_right := ' + lib.clist([f'({lib.cstr(a)}, {lib.cstr(b)})' for a, b in R]) + f'; jn_built := {str(built).lower()}; jn_ids := {sl(c.get("ids", []))}; jn_rows := '
            + lib.clist(rows) + ' |}')


def group(c, viol, tag):
    ids = c['ids']
    if c['mode'] == 'name':
        key = {i: c['g1'][i] for i in ids}
    elif c['mode'] == 'name-tuple':
        key = dict(c['expected_keys'])
    elif c['mode'] == 'names':
        key = {i: to_hash_id([c['g1'][i], c['g2'][i]]) for i in ids}
    else:
        key = {i: c['g1'][i] + '-' + c['g2'][i] for i in ids}
    if 'build_exc' in c:
        viol.append(v('oracle:group-build-failed', c, f'{tag}: GroupBy failed to build: {c["build_exc"]}'))
        return None
    for b in c.get('by_field_bad', [])[:1]:
        viol.append(v('oracle:group-by-field', c, f'{tag}: the field the dataset is grouped by, read on the grouped dataset for the group {b["key"]!r}, gives {b["got"]}, '
                                                  f'expected the old values of the members {b["want"]}'))
    if c.get('ids_after_unknown_key') is not None and c['ids_after_unknown_key'] != c['new_ids']:
        viol.append(v('oracle:group-ids-changed', c, f'{tag}: after a field was asked for the unknown group "zz" the ids are {c["ids_after_unknown_key"]}, before they were {c["new_ids"]}'))
    rows = []
    for row in c['rows']:
        r = row['image']
        if row['key'] == 'zz':
            if 'exc' not in r:
                viol.append(v('oracle:group-unknown-key', c, f'{tag}: unknown group key returned {r}'))
            continue
        if 'val' not in r or 'd' not in (r['val'] or {}):
            viol.append(v('oracle:group-field', c, f'{tag}: group {row["key"]!r}: {r}'))
            continue
        members = [kv[0]['s'] for kv in r['val']['d']]
        for kv in r['val']['d']:
            if app_sym(kv[1]) != 's030' or app_arg(kv[1]) != kv[0]['s']:
                viol.append(v('oracle:group-member-value', c, f'{tag}: group {row["key"]!r}: member {kv[0]} has value {kv[1]}'))
        rows.append(f'({lib.cstr(row["key"])}, {sl(members)})')
    return ('{| gr_ids := ' + sl(ids) + '; gr_key := ' + lib.clist([f'({lib.cstr(i)}, {lib.cstr(key[i])})' for i in ids])
            + f'; gr_new := {sl(c["new_ids"])}; gr_rows := ' + lib.clist(rows) + ' |}')


def split(c, viol, tag):
    ids = c['ids']
    built = 'build_exc' not in c
    rows = []
    if built:
        for b in c.get('origin_bad', [])[:1]:
            viol.append(v('oracle:split-field-sees-new-id', c, f'{tag}: a field origin(id, __part__) of the Split gives {b["got"]!r} for the new id {b["key"]!r}, expected {b["want"]!r} '
                                                               f'(the id of the entry it is a part of)'))
        for row in c['rows']:
            r = row['image']
            if row['key'] == 'zz':
                if 'exc' not in r:
                    viol.append(v('oracle:split-unknown-key', c, f'{tag}: unknown new id returned {r}'))
                continue
            if 'val' not in r or app_sym(r['val']) != 's040':
                viol.append(v('oracle:split-field', c, f'{tag}: new id {row["key"]!r}: {r}'))
                continue
            inner, part = r['val']['a'][1]
            rows.append(f'({lib.cstr(row["key"])}, ({lib.cstr(app_arg(inner))}, {lib.cstr(part["s"])}))')
    parts = lib.clist([f'({lib.cstr(i)}, ' + lib.clist([f'({lib.cstr(n)}, {lib.cstr(p)})' for n, p in c['parts'][i]]) + ')' for i in ids])
    return ('{| sp_ids := ' + sl(ids) + f'; sp_parts := {parts}; sp_built := {str(built).lower()}; sp_new := {sl(c.get("new_ids", []))}; sp_rows := '
            + lib.clist(rows) + ' |}')


KIND = {'merge': (merge, 'merge_case', 'check_merge'), 'filter': (flt, 'filter_case', 'check_filter'), 'join': (join, 'join_case', 'check_join'),
        'group': (group, 'group_case', 'check_group'), 'split': (split, 'split_case', 'check_split')}


def v(sig, c, what):
    return {'signature': sig, 'case': {k: c[k] for k in c if k not in ('rows', 'checkids')}, 'what': what}


def memo_violations(cases, viol, tag):
    """the id mapping of Join / GroupBy / Split is computed once per pipeline object (C03, C08, C16, C17)"""
    for i, c in enumerate(cases):
        if c.get('mapping_recomputed'):
            viol.append({'signature': 'oracle:mapping-recomputed', 'case': {k: c[k] for k in c if k not in ('rows', 'checkids')},
                         'observed': c['mapping_recomputed'],
                         'what': f'{tag}: {c["kind"]} case {i}: after ids and every field had been evaluated once on this pipeline object, evaluating ids and '
                                 f'fields again ran the key / split functions again: {c["mapping_recomputed"]}'})


def memo_oracle(ctx, res, tag):
    """only the memoisation oracle, for the checks of C03 and C08"""
    n = 90 if ctx['tier'] == 'quick' else 900
    out = os.path.join(ctx['work'], 'relmemo.json')
    rc, log = lib.run_impl('relational.py', ['--seed', str(ctx['seed']), '--n', str(n), '--kinds', 'join,group,split', '--out', out], 2400)
    extra = []
    if rc != 0:
        extra.append({'signature': 'harness-error', 'what': log[-800:], 'case': None})
        k = 0
    else:
        cases = json.load(open(out))['cases']
        memo_violations(cases, extra, tag)
        k = sum(1 for c in cases if 'mapping_recomputed' in c)
    res['violations'] = list(res.get('violations', [])) + extra[:2]
    res['oracle_checks'] = res.get('oracle_checks', 0) + k
    res['evaluations'] = res.get('evaluations', 0) + k
    res['rule'] = res.get('rule', '') + '; plus Join / GroupBy / Split pipelines whose ids and fields are evaluated twice: the key and split functions run once per id'
    return res


def run(ctx, kinds, n_quick=300, n_thorough=3000):
    n = n_quick if ctx['tier'] == 'quick' else n_thorough
    out = os.path.join(ctx['work'], 'rel.json')
    rc, log = lib.run_impl('relational.py', ['--seed', str(ctx['seed']), '--n', str(n), '--kinds', ','.join(kinds), '--out', out], 2400)
    if rc != 0:
        return {'evaluations': 0, 'distinct_nontrivial': 0, 'rule': '', 'samples': [],
                'violations': [{'signature': 'harness-error', 'what': log[-800:], 'case': None}]}
    cases = json.load(open(out))['cases']
    viol, mism = [], 0
    memo_violations(cases, viol, ctx['pid'])
    for kind in kinds:
        fn, ctype, check = KIND[kind]
        lits, idx = [], []
        for i, c in enumerate(cases):
            if c['kind'] != kind:
                continue
            if 'harness_error' in c:
                viol.append({'signature': 'harness-error', 'what': c['harness_error'], 'case': None})
                continue
            lit = fn(c, viol, f'{kind} case {i}')
            if lit is not None:
                lits.append(lit)
                idx.append(i)
        shards = lib.write_shards(ctx['pid'], kind, ['Values', 'JoinGen', 'Relational', 'CheckLib'], ctype, check, lits, per=150)
        total, bad, errors = lib.run_shards(shards)
        mism += len(bad)
        for e in errors:
            viol.append({'signature': 'harness-error', 'what': e, 'case': None})
        for j, code in bad[:3]:
            c = cases[idx[j]]
            viol.append({'signature': f'corr:{kind}:{code}', 'case': {k: c[k] for k in c if k not in ('rows', 'checkids')},
                         'what': f'{ctx["pid"]}: {kind} case {idx[j]}: the implementation and Model/Relational.v disagree (code {code}: 1 build outcome, 2 ids, 3 per-id rows)',
                         'observed': {k: c.get(k) for k in ('ids', 'new_ids', 'build_exc')}})
    per, outv = {}, []
    for x in viol:
        per[x['signature']] = per.get(x['signature'], 0) + 1
        if per[x['signature']] <= 2:
            outv.append(x)
    distinct = {lib.case_hash({k: c[k] for k in c if k not in ('rows', 'checkids')}) for c in cases}
    kinds_count = {}
    for c in cases:
        kinds_count[c['kind'] + (':rejected' if 'build_exc' in c else '')] = kinds_count.get(c['kind'] + (':rejected' if 'build_exc' in c else ''), 0) + 1
    from props import collide
    return collide.add(ctx, {'evaluations': len(cases), 'distinct_nontrivial': len(distinct),
            'rule': 'random id sets over 8 ids (disjoint, overlapping, overlapping non-adjacent, empty datasets; unsorted ids; duplicate join keys; '
                    'colliding split ids; one-shot iterables for keep/drop) through the real layers and through Model/Relational.v; distinct by input',
            'samples': [{k: c[k] for k in c if k not in ('rows', 'checkids')} for c in cases[:1]],
            'distribution': kinds_count, 'violations': outv, 'oracle_checks': len(cases), 'mismatches': mism}, ctx['pid'])
