"""C10: decorated functions run forward, then f, then the inverses in reverse order."""
import json
import os

import lib

MODEL_DEPS = ['CheckLib', 'Loopback']
KERNELS = ('Inverse', 'ChainContext')
TRUSTED = ['Coq 8.16.1 kernel; vm_compute in case shards and the Example',
           'hand-written Model/Loopback.v (BagContext / ChainContext / IdentityContext reverse, loopback) for six layer kinds with one forward and one '
           'backward field, tied by the correspondence; the Inverse wrapper and the factory glue are exercised, not modelled']
ASSUMPTIONS = ['one forward field x, one backward field y, one private parameter per layer; f symbolic']
K = {'inv': 'KInv {i}', 'inv_noparam': 'KInvNoParam {i}', 'inherit_all': 'KInhAll', 'inherit_list': 'KInhList', 'fwd_only': 'KFwdOnly {i}', 'cache': 'KCache'}


def run(ctx):
    n = 400 if ctx['tier'] == 'quick' else 4000
    out = os.path.join(ctx['work'], 'lb.json')
    rc, log = lib.run_impl('loopback.py', ['--seed', str(ctx['seed']), '--n', str(n), '--out', out], 1500)
    if rc != 0:
        return {'evaluations': 0, 'distinct_nontrivial': 0, 'rule': '', 'samples': [],
                'violations': [{'signature': 'harness-error', 'what': log[-800:], 'case': None}]}
    cases = json.load(open(out))['cases']
    viol, lits = [], []
    for i, c in enumerate(cases):
        d = c['decorate']
        if 'error' in d:
            viol.append({'signature': 'oracle:loopback-unexpected-error', 'case': {'kinds': c['kinds']}, 'what': f'C10: chain {i} {c["kinds"]}: {d["error"]}'})
            continue
        # the three entry points agree
        for other in ('wrap', 'loopback'):
            o = c[other]
            if ('val' in d) != ('val' in o) or ('val' in d and d['val'] != o['val']):
                viol.append({'signature': 'oracle:entry-points-differ', 'case': {'kinds': c['kinds']}, 'observed': {other: o, 'decorate': d},
                             'what': f'C10: chain {i} {c["kinds"]}: _decorate and _{other} disagree'})
        # every function once per call
        if 'val' in d and len(set(d['calls'])) != len(d['calls']):
            viol.append({'signature': 'oracle:loopback-double-evaluation', 'case': {'kinds': c['kinds']}, 'observed': d['calls'],
                         'what': f'C10: chain {i} {c["kinds"]}: a function ran twice in one call: {d["calls"]}'})
        res = 'None' if 'val' not in d else f'Some ({lib.cval(d["val"])})'
        lits.append('{| lb_kinds := ' + lib.clist([K[k].format(i=j) for j, k in enumerate(c['kinds'])]) + f'; lb_result := {res} |}}')
    shards = lib.write_shards(ctx['pid'], 'lb', ['Values', 'Loopback', 'CheckLib'], 'lb_case', 'check_loopback', lits, per=200)
    total, bad, errors = lib.run_shards(shards)
    for e in errors:
        viol.append({'signature': 'harness-error', 'what': e, 'case': None})
    ok_cases = [c for c in cases if 'error' not in c['decorate']]
    for j, code in bad[:3]:
        c = ok_cases[j]
        viol.append({'signature': f'corr:loopback:{code}', 'case': {'kinds': c['kinds']}, 'observed': c['decorate'],
                     'what': f'C10: chain {c["kinds"]}: layer._decorate("x", "y")(f)(x0) ' + ('returned a value' if 'val' in c['decorate'] else 'was rejected')
                             + ' but forward ; f ; inverses-in-reverse says otherwise (code 1: another value, 2: accepted vs rejected)'})
    per, outv = {}, []
    for x in viol:
        per[x['signature']] = per.get(x['signature'], 0) + 1
        if per[x['signature']] <= 2:
            outv.append(x)
    return {'evaluations': 3 * len(cases), 'distinct_nontrivial': len({tuple(c['kinds']) for c in cases if len(c['kinds']) >= 2}),
            'rule': 'random chains of 1-6 layers (invertible with a private parameter shared by forward and inverse, invertible without, '
                    'inherit-all, inherit x and y, forward-only, CacheToRam); _decorate, _wrap and _loopback applied to a symbolic f; distinct by kind sequence',
            'samples': [cases[0]], 'distribution': {'accepted': sum(1 for c in cases if 'val' in c['decorate']), 'rejected': sum(1 for c in cases if 'rejected' in c['decorate'])},
            'violations': outv, 'oracle_checks': 3 * len(cases), 'mismatches': len(bad)}
