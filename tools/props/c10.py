"""C10: decorated functions run forward, then f, then the inverses in reverse order."""
import json
import os

import lib

MODEL_DEPS = ['CheckLib', 'Loopback']
KERNELS = ('Inverse', 'ChainContext', 'BagContext', 'ChainContext', 'IdentityContext', 'EdgesBag', 'function_to_bag')
TRUSTED = ['Coq 8.16.1 kernel; vm_compute in case shards and the Example',
           'hand-written Model/Loopback.v (BagContext / ChainContext / IdentityContext reverse, loopback) for layers with one forward field and any '
           'backward fields, tied by the correspondence; the Inverse wrapper and the factory glue are exercised, not modelled']
ASSUMPTIONS = ['one forward field x; backward fields y and w; at most one private parameter per layer; f symbolic (field o of its result is f_o(x))']
FWD = {'def_p': 'FDef true', 'def': 'FDef false', 'inherit': 'FInherit', 'none': 'FInherit'}


def blayer(d):
    defs = lib.clist(['{| bd_out := ' + lib.cstr(x['out']) + '; bd_fn := ' + lib.cstr(x['fn']) + '; bd_args := ' + lib.clist([lib.cstr(a) for a in x['args']])
                      + f'; bd_param := {str(x["param"]).lower()} |}}' for x in d['defs']])
    inh = 'InhAll' if d['inh'] == 'all' else 'InhList ' + lib.clist([lib.cstr(n) for n in d['inh']])
    return f'{{| bl_id := {d["id"]}; bl_fwd := {FWD[d["fwd"]]}; bl_defs := {defs}; bl_inh := {inh}; bl_cache := {str(d["cache"]).lower()} |}}'


def describe(c):
    def one(d):
        if d['kind'] != 'generic':
            return d['kind']
        return (f'{{x: {d["fwd"]}; ' + ', '.join(f'{x["out"]} = inverse {x["fn"]}({", ".join(x["args"])}{", _p" if x["param"] else ""})' for x in d['defs'])
                + f'; inherit {d["inh"]}}}')
    return '[' + ' >> '.join(one(d) for d in c['layers']) + f']._decorate("x", {c["outs"]}, {c["final"]})'


def run(ctx):
    n = 400 if ctx['tier'] == 'quick' else 4000
    out = os.path.join(ctx['work'], 'lb.json')
    rc, log = lib.run_impl('loopback.py', ['--seed', str(ctx['seed']), '--n', str(n), '--out', out], 1500)
    if rc != 0:
        return {'evaluations': 0, 'distinct_nontrivial': 0, 'rule': '', 'samples': [],
                'violations': [{'signature': 'harness-error', 'what': log[-800:], 'case': None}]}
    cases = json.load(open(out))['cases']
    viol, lits, ok_cases = [], [], []
    for i, c in enumerate(cases):
        case = {'layers': c['layers'], 'outs': c['outs'], 'final': c['final']}
        if 'build_error' in c:
            viol.append({'signature': 'oracle:loopback-unexpected-error', 'case': case, 'what': f'C10: chain {i} {describe(c)} could not be built: {c["build_error"]}'})
            continue
        d = c['decorate']
        if 'error' in d:
            viol.append({'signature': 'oracle:loopback-unexpected-error', 'case': case, 'what': f'C10: chain {i} {describe(c)}: {d["error"]}'})
            continue
        # the three entry points agree
        for other in ('wrap', 'loopback'):
            o = c[other]
            if ('val' in d) != ('val' in o) or ('val' in d and d['val'] != o['val']):
                viol.append({'signature': 'oracle:entry-points-differ', 'case': case, 'observed': {other: o, 'decorate': d},
                             'what': f'C10: chain {i} {describe(c)}: _decorate and _{other} disagree'})
        # every function once per call
        if 'val' in d and len(set(d['calls'])) != len(d['calls']):
            viol.append({'signature': 'oracle:loopback-double-evaluation', 'case': case, 'observed': d['calls'],
                         'what': f'C10: chain {i} {describe(c)}: a function ran twice in one call: {d["calls"]}'})
        res = 'None' if 'val' not in d else 'Some ' + lib.clist([lib.cval(v) for v in d['val']])
        lits.append('{| lb_layers := ' + lib.clist([blayer(x) for x in c['layers']]) + '; lb_outs := ' + lib.clist([lib.cstr(o) for o in c['outs']])
                    + '; lb_final := ' + lib.clist([lib.cstr(o) for o in c['final']]) + f'; lb_result := {res} |}}')
        ok_cases.append(c)
    shards = lib.write_shards(ctx['pid'], 'lb', ['Values', 'Loopback', 'CheckLib'], 'lb_case', 'check_loopback', lits, per=200)
    total, bad, errors = lib.run_shards(shards)
    for e in errors:
        viol.append({'signature': 'harness-error', 'what': e, 'case': None})
    for j, code in bad[:3]:
        c = ok_cases[j]
        viol.append({'signature': f'corr:loopback:{code}', 'case': {'layers': c['layers'], 'outs': c['outs'], 'final': c['final']}, 'observed': c['decorate'],
                     'what': f'C10: {describe(c)}(f)(x0) ' + ('returned ' + json.dumps(c['decorate']['val'])[:300] if 'val' in c['decorate'] else 'was rejected')
                             + ' but forward ; f ; backward-parts-in-reverse says otherwise (code 1: another value, 2: accepted vs rejected)'})
    per, outv = {}, []
    for x in viol:
        per[x['signature']] = per.get(x['signature'], 0) + 1
        if per[x['signature']] <= 2:
            outv.append(x)
    good = [c for c in cases if 'decorate' in c]
    return {'evaluations': 3 * len(cases), 'distinct_nontrivial': len({json.dumps([c['layers'], c['outs'], c['final']], sort_keys=True) for c in cases if len(c['layers']) >= 2}),
            'rule': 'random chains of 1-6 layers: 40% from the six simple kinds (invertible with / without a private parameter, inherit-all, inherit x and y, '
                    'forward-only, CacheToRam) with one backward field, 60% generic layers (x defined with or without parameter / inherited / absent; @inverse '
                    'fields y and w with one or two backward arguments in either order, with or without the parameter; inherit all or a random list) with '
                    'outputs [y], [w], [y, w], [w, y] and final = all or one of them; _decorate, _wrap and _loopback applied to a symbolic f; '
                    'distinct by (layers, outputs, final)',
            'samples': [cases[0]], 'distribution': {'accepted': sum(1 for c in good if 'val' in c['decorate']), 'rejected': sum(1 for c in good if 'rejected' in c['decorate']),
                                                    'two_backward_fields': sum(1 for c in cases if len(c['outs']) == 2),
                                                    'inverse_with_two_backward_arguments': sum(1 for c in cases if any(len(x['args']) == 2 for d in c['layers'] for x in d['defs']))},
            'violations': outv, 'oracle_checks': 3 * len(cases), 'mismatches': len(bad)}
