"""Engine-level correspondence shared by C01, C03, C20 (and reused by C05/C11): the real Graph/vm.execute and the
Coq machine (Model/VM.v over the regenerated edge generators) run the same random DAGs; the shards carry the
implementation's observables and Coq reports the disagreeing indices."""
import collections
import json
import os

import lib

CODES = {1: 'result', 2: 'log', 3: 'trace', 4: 'counts', 5: 'hash', 6: 'graph_hash'}

EXPECTED_MRO = {
    # class: (compute_hash, evaluate, _compute_hash, _make_hash, _evaluate, _hash_graph) owners assumed by Model/Edges.v
    'FunctionEdge': ('StaticHash', 'FunctionEdge', 'StaticGraph', 'FunctionEdge', None, 'StaticGraph'),
    'ConstantEdge': ('StaticHash', 'StaticEdge', 'ConstantEdge', None, 'ConstantEdge', 'ConstantEdge'),
    'IdentityEdge': ('StaticHash', 'StaticEdge', 'StaticGraph', 'IdentityEdge', 'IdentityEdge', 'StaticGraph'),
    'ProductEdge': ('StaticHash', 'StaticEdge', 'StaticGraph', 'ProductEdge', 'ProductEdge', 'StaticGraph'),
    'CacheEdge': ('StaticHash', 'CacheEdge', 'StaticGraph', 'CacheEdge', None, 'StaticGraph'),
    'HashBarrier': ('HashBarrier', 'HashBarrier', None, None, None, 'HashBarrier'),
    'ComputableHashEdge': ('ComputableHashBase', 'ComputableHashBase', None, None, None, 'ComputableHashEdge'),
    'ImpureEdge': ('ComputableHashBase', 'ComputableHashBase', None, None, None, 'ImpureEdge'),
    'SwitchEdge': ('SwitchEdge', 'SwitchEdge', None, None, None, 'SwitchEdge'),
    'CheckIdsEdge': ('StaticHash', 'StaticEdge', 'StaticGraph', 'CheckIdsEdge', 'CheckIdsEdge', 'StaticGraph'),
    'FilterEdge': ('StaticHash', 'StaticEdge', 'StaticGraph', 'FilterEdge', 'FilterEdge', 'StaticGraph'),
    'GroupEdge': ('StaticHash', 'StaticEdge', 'StaticGraph', 'GroupEdge', 'GroupEdge', 'StaticGraph'),
    'GroupMapping': ('StaticHash', 'GroupMapping', 'StaticGraph', 'GroupMapping', None, 'StaticGraph'),
    'JoinMapping': ('StaticHash', 'JoinMapping', 'StaticGraph', 'JoinMapping', None, 'StaticGraph'),
    'SwitchBranch': ('SwitchBranch', 'SwitchBranch', None, None, None, 'SwitchBranch'),
    'SwitchMissing': ('SwitchMissing', 'SwitchMissing', None, None, None, 'SwitchMissing'),
    'SplitMapping': ('StaticHash', 'SplitMapping', 'StaticGraph', 'SplitMapping', None, 'StaticGraph'),
    'CachedColumn': ('CachedColumn', 'CachedColumn', None, None, None, 'CachedColumn'),
    'HashDigestEdge': ('StaticHash', 'HashDigestEdge', 'StaticGraph', 'HashDigestEdge', None, 'StaticGraph'),
}
METHODS = ('compute_hash', 'evaluate', '_compute_hash', '_make_hash', '_evaluate', '_hash_graph')


def literal(case):
    calls = []
    for call, ob in zip(case['calls'], case['obs']):
        ins = lib.clist([f'({i}, {lib.cval(call["ins"][str(i)])})' for i in case['signature']])
        calls.append('{| xc_ins := ' + ins + '; xc_bad := ' + lib.clist([lib.cstr(b) for b in call['bad']])
                     + '; xc_res := ' + lib.cxres(ob['res']) + '; xc_log := ' + lib.clist([lib.ccall(c) for c in ob['log']])
                     + '; xc_trace := ' + lib.clist([lib.ctev(e) for e in ob['trace']]) + '; xc_hash := ' + lib.chash(ob.get('hash')) + ' |}')
    caches = lib.clist([f'({i}, KRam ({"None" if s is None else "Some " + str(s)}))' for i, s in enumerate(case['caches'])])
    counts = lib.clist([f'({n}, {c})' for n, c in case['counts']])
    return ('{| xg := ' + lib.cgraph(case['nodes']) + f'; xout := {case["out"]}; xcaches := {caches}; xcounts := {counts}; xghash := {lib.chash(case.get("graph_hash"))}; xcalls := '
            + lib.clist(calls) + ' |}')


def shape_key(case):
    """canonical shape of a case for counting distinct ones: edge kinds, wiring, number of calls"""
    def kd(d):
        return (d['k'], tuple(d.get('ps', ())), d.get('ar'), tuple(d.get('kw', ())), d.get('n'), d.get('c'),
                kd(d['inner']) if 'inner' in d else None)
    return lib.case_hash([repr([kd(d) for d in case['nodes']]), case['out'], [sorted(c['ins'].items(), key=str) for c in case['calls']],
                          [c['bad'] for c in case['calls']]])


def nontrivial(case):
    inner = [d for d in case['nodes'] if d['k'] != 'leaf']
    shared = collections.Counter(p for d in inner for p in d['ps'])
    return len(inner) >= 3 and (max(shared.values()) if shared else 0) >= 2


def run(ctx, n_quick=1200, n_thorough=20000, max_inner=14, mutants=0):
    tier, seed, work = ctx['tier'], ctx['seed'], ctx['work']
    n = n_quick if tier == 'quick' else n_thorough
    out = os.path.join(work, 'engine.json')
    corpus = os.path.join(lib.VERIF, 'corpus', 'engine.json')
    rc, log = lib.run_impl('engine.py', ['--seed', str(seed), '--n', str(n), '--max-inner', str(max_inner), '--out', out,
                                         '--corpus', corpus, '--mutants', str(mutants)], 1500)
    if rc != 0:
        return {'cases': [], 'mismatch': [], 'errors': ['implementation harness failed: ' + log[-800:]], 'mro_bad': []}
    data = json.load(open(out))
    cases = data['cases']
    mro_bad = []
    for cls, row in EXPECTED_MRO.items():
        got = tuple(data['mro'].get(cls, {}).get(m) for m in METHODS)
        if got != row:
            mro_bad.append({'class': cls, 'expected': row, 'observed': got})
    lits = [literal(c) for c in cases]
    shards = lib.write_shards(ctx['pid'], 'engine', ['Values', 'VM', 'Edges', 'Store', 'CheckLib'], 'xcase', 'check_engine', lits, per=150)
    total, bad, errors = lib.run_shards(shards)
    if total != len(cases) and not errors:
        errors.append(f'Coq checked {total} of {len(cases)} cases')
    mismatch = [{'index': i, 'kind': CODES.get(code % 10, str(code)), 'call': code // 10, 'case': cases[i]} for i, code in bad]
    return {'cases': cases, 'mismatch': mismatch, 'errors': errors, 'mro_bad': mro_bad, 'mutants': data.get('mutants', [])}


def distribution(cases):
    kinds = collections.Counter(d['k'] for c in cases for d in c['nodes'])
    sizes = collections.Counter(min(len(c['nodes']) // 5 * 5, 40) for c in cases)
    outcomes = collections.Counter(('exc:' + o['res']['exc'].split(':')[0]) if 'exc' in o['res'] else 'value'
                                   for c in cases for o in c['obs'])
    return {'edge_kinds': dict(kinds), 'nodes_per_case_bucket5': {str(k): v for k, v in sorted(sizes.items())},
            'call_outcomes': dict(outcomes), 'calls': sum(len(c['calls']) for c in cases),
            'tuple_outputs': sum(1 for c in cases if c['nodes'][c['out']]['k'] == 'product'),
            'with_cache': sum(1 for c in cases if c['caches'])}


def sample(case):
    return {'nodes': case['nodes'], 'out': case['out'], 'calls': case['calls'],
            'observed': [{'res': o['res'], 'n_calls': len(o['log']), 'n_events': len(o['trace'])} for o in case['obs']]}


def summarise(r, property_level, pid):
    """turn a correspondence result into the dict check.py expects.  A mismatch on a property-level observable is
    a concrete failing input; any other mismatch means the model is no longer validated against the code."""
    cases = r['cases']
    viol = []
    for e in r['errors']:
        viol.append({'signature': 'harness-error', 'what': e, 'case': None})
    for m in r['mro_bad']:
        viol.append({'signature': 'corr:mro', 'what': f'method resolution of {m["class"]} differs from Model/Edges.v: {m}', 'case': m})
    concrete = [m for m in r['mismatch'] if m['kind'] in property_level]
    other = [m for m in r['mismatch'] if m['kind'] not in property_level]
    for m in concrete[:3]:
        ob = m['case']['obs'][m['call'] - 1] if m['call'] else None
        viol.append({'signature': f'corr:{m["kind"]}', 'case': m['case'],
                     'what': f'{pid}: model and implementation disagree on the {m["kind"]} of call {m["call"]} of engine case {m["index"]}',
                     'observed': ob and ob['res'], 'expected': 'the value computed by the Coq machine (run coq/Run shard)'})
    if other and not concrete:
        m = other[0]
        viol.append({'signature': f'corr-unvalidated:{m["kind"]}', 'case': m['case'],
                     'what': f'{pid}: model no longer validated: {len(other)} cases disagree on {sorted({x["kind"] for x in other})} '
                             f'(first: case {m["index"]}, call {m["call"]}); no disagreement on {list(property_level)}'})
    distinct = {shape_key(c) for c in cases if nontrivial(c)}
    return {'evaluations': sum(len(c['calls']) for c in cases), 'distinct_nontrivial': len(distinct),
            'rule': 'random well-formed DAGs (1-3 inputs, up to 14 or 42 inner nodes, all engine edge kinds, repeated and shared '
                    'parents, keyword splits, Silent positions, RAM caches of size None/1/2 shared by 1-3 calls, 12% raising user '
                    'functions, 25% tuple outputs) run through the real Graph and through Model/VM.v; distinct by wiring+kinds+calls, '
                    'non-trivial = at least 3 inner nodes and a node used at least twice',
            'samples': [sample(c) for c in cases[-2:]], 'mismatches': len(r['mismatch']),
            'distribution': distribution(cases), 'violations': viol, 'oracle_checks': 0}
