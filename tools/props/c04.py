"""C04: caches are transparent for every history of calls, failures and rebuilds."""
from props import histcorr

MODEL_DEPS = ['CheckLib']
KERNELS = ('CacheEdge', 'MemoryCache', 'StaticHash', 'FunctionEdge', 'EvictionCache', 'CachedColumn', 'CacheColumns')
TRUSTED = ['Coq 8.16.1 kernel; vm_compute in case shards',
           'tools/translate.py: CacheEdge.evaluate, MemoryCache.get/set/clear',
           'hand-written: Model/Store.v (dict / pylru / digest store), tied by the history correspondence',
           'disk store modelled as a digest-keyed map: injectivity of tarn.pickler.dumps + sha256 on hash values is trusted']
ASSUMPTIONS = ['values are drawn from fixed points of the serializer round trip (PickleSerializer)',
               'keys of the histories are strings, so Python == on hash leaves is structural equality (F3 is the known finding otherwise)']


def run(ctx):
    r = histcorr.run(ctx)
    res = histcorr.summarise(r, ('result',), 'C04', [histcorr.oracle_transparent])
    # column caches (not in the VM model): the transparency oracle on histories with CacheColumns layers, variants that list the
    # same ids in another order included
    rc = histcorr.run(dict(ctx, pid=ctx['pid'] + 'col'), n_quick=100, n_thorough=800, extra=('--columns',))
    v, n = histcorr.oracle_transparent(rc['cases'])
    v_ids, n_ids = histcorr.oracle_ids_stable(rc['cases'])
    v, n = v + v_ids, n + n_ids
    per = {}
    for x in v:
        per[x['signature']] = per.get(x['signature'], 0) + 1
        if per[x['signature']] <= 2:
            res['violations'].append(x)
    res['violations'] += [{'signature': 'harness-error', 'what': e, 'case': None} for e in rc['errors']]
    res['oracle_checks'] += n
    res['evaluations'] += sum(len(c['ops']) for c in rc['cases'])
    res['distribution']['column_histories'] = len(rc['cases'])
    from props import colmodel
    return colmodel.add(ctx, res, 'C04')
