"""C04: caches are transparent for every history of calls, failures and rebuilds."""
from props import histcorr

MODEL_DEPS = ['CheckLib']
KERNELS = ('CacheEdge', 'MemoryCache', 'StaticHash', 'FunctionEdge', 'EvictionCache')
TRUSTED = ['Coq 8.16.1 kernel; vm_compute in case shards',
           'tools/translate.py: CacheEdge.evaluate, MemoryCache.get/set/clear',
           'hand-written: Model/Store.v (dict / pylru / digest store), tied by the history correspondence',
           'disk store modelled as a digest-keyed map: injectivity of tarn.pickler.dumps + sha256 on hash values is trusted']
ASSUMPTIONS = ['values are drawn from fixed points of the serializer round trip (PickleSerializer)',
               'keys of the histories are strings, so Python == on hash leaves is structural equality (F3 is the known finding otherwise)']


def run(ctx):
    r = histcorr.run(ctx)
    return histcorr.summarise(r, ('result',), 'C04', [histcorr.oracle_transparent])
