#!/usr/bin/env python3
"""MANIFEST.setup_cmd: translate the kernels of /repo and build the whole Coq development (full .vo build)."""
import os
import sys

sys.path.insert(0, os.path.dirname(os.path.abspath(__file__)))
import lib  # noqa

with lib.BuildLock():
    ok, out, rep = lib.translate()
    if not ok:
        print(out)
        print('setup: translation failed (the checks will report it); building what can be built')
    ok, out = lib.make([], timeout=3000)
    print(out[-3000:])
    sys.exit(0 if ok else 1)
