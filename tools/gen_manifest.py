#!/usr/bin/env python3
"""Regenerates /verif/MANIFEST.json from the table below (one entry per claimed property)."""
import json
import os

VERIF = os.path.dirname(os.path.dirname(os.path.abspath(__file__)))
TECH = 'machine-checked proof in Coq 8.16 (model + theorems) + fail-closed translator + model/implementation correspondence'
ORACLES = {
    'C01': 'multi-field requests on one pipeline object in several orders against single-field values; optional stacks below a missing root: asking for a left-out field raises FieldError / AttributeError only',
    'C02': 'multi-field request order; every operand observed before and after composing; a layer redefining id; instances created one after the other with ==-equal arguments',
    'C03': 'key mappings of Join / GroupBy / Split computed once per pipeline object; HashDigest executes exactly what get_hash executes; one and two cached columns: no function twice per call beyond findings F9 / F10; a decorated function runs once per call; request sequences through CacheColumns against Model/Columns.v (calls of the user functions in order); one multi-field request (also through layer(key)[fields]) runs no function twice; a Join over one Merge object used on both sides',
    'C04': 'every call of every history against the cache-free pipeline, column-cache histories and id-order variants included; request sequences through CacheColumns (failing functions, unknown keys, rebuilt pipelines) against Model/Columns.v',
    'C05': 'families of dataset pipelines differing in one ingredient: equal node-hash digests mean equal values; a column cache and a disk cache of a dependent field over the same folders in both orders (finding F11); one CacheToDisk object behind look-alike constants; Silent keyword bindings; the methods of one External object (F12, fixed)',
    'C06': 'families of sub-pipeline variants: equal static hashes / node-hash digests mean equal functions / values; functions under functools.wraps decorators; array constants of different shape',
    'C07': 'digests of a field and of ids under 14 neutral rewrites in 3 interpreters; a column cache is found again by a rebuilt pipeline whose dataset lists its ids in another order; disk and column caches filled under one PYTHONHASHSEED and read under others',
    'C08': 'table sizes and recency after every operation (stored None values and pickle round trips included); key mappings computed once; a column-cache hit runs nothing; column caches found again by a rebuilt pipeline; disk and column caches filled under one PYTHONHASHSEED and read under others',
    'C09': 'operands unchanged by composing; instances of one class independent; every bracketing gives the same pipeline; one CacheToRam / LazyChain object used several times',
    'C10': 'the three entry points agree; every function, the decorated one included, runs once per call; layers written as class bodies with positional-only inverse arguments',
    'C11': 'every 2-thread schedule of bounded length (column caches included) gives the sequential results; tables touched and replaced under their lock only; first calls of two threads raced at line granularity; merged datasets with a cached field over two merged fields; values without __eq__; two later calls raced line by line inside the files that hold shared state',
    'C12': 'every crash point x fault set: later processes return the cache-free values, recompute at most once, store again; column request sequences with interrupted user functions',
    'C13': 'the accept / reject outcome does not depend on how the same layers are combined or reused; cache names given as a bare string; an impure value reaching a keyed field through a Silent argument only',
    'C14': 'owner-only evaluation; hash-collision families', 'C15': 'other fields untouched; a Filter object follows the dataset it is connected to; hash-collision families',
    'C16': 'no field value (not even None) for an id outside the join; hash-collision families', 'C17': 'key mappings computed once; hash-collision families',
    'C18': 'the error is repeatable; targeted optional chains ending in caches',
    'C19': 'signature, graph, entry counts, cache objects, values, digests and failures of copy and original',
    'C20': 'Python-level call counts of build, compile and call on stacks of growing depth; CPU time of repeated cached calls on deep stacks',
}
CLAIMS = {
    'C01': ('Theorems over all DAG shapes and arbitrary generator trees: the stack machine simulates a recursive evaluator (Sim.v), '
            'which under the eviction-budget invariant returns the cache-free composition of the user functions (L2.v, Counts.v); '
            'instantiated for the regenerated edge generators. The machine model is tied to vm.py by full-trace agreement on generated DAGs.',
            'both directions for graphs whose failure-free composition is defined: under any behaviour of the user functions the call returns it or stops '
            'with the exception of a user function that raised, never stuck (the run is the failure-free run up to the first raising call); which of '
            'several raising functions fires first, and library-raised KeyError / ValueError (unknown switch key, foreign id), rest on the trace agreement'),
    'C03': ('Theorem: in a successful call no (hash|value, node) generator completes twice, for any graph, generator trees, caches and '
            'interference; the exact call log (which functions, order, laziness of switches and cache hits) is compared between the '
            'Coq machine and the real engine on every generated case, plus direct oracles on the implementation log. For CacheColumns the property is refuted by a theorem over the regenerated CachedColumn.evaluate: a request that misses the RAM table runs the hash pass of the requested entry twice (finding F9).',
            'the "exactly the needed functions" half is decided by model/implementation agreement on the call log (a sample) and by oracles'),
    'C04': ('Theorem over ALL histories of calls and clears on any sequence of graphs sharing the caches (rebuilds, variants), with arbitrary '
            'Good-preserving interference: every call returns the value of the cache-free recursive semantics; via the store invariant '
            '"every entry key is a hash whose inverse reading is the stored value" (hash soundness over the regenerated hash makers) and '
            'the machine/evaluator/spec refinement. Real pipelines with CacheToRam/CacheToDisk are run against the model on generated histories; request sequences through CacheColumns against the column model.',
            'failing calls included: every call of every history ends with the cache-free value or a user exception and leaves the store within its '
            'invariant (theorem over a store with a ghost write log); keys without numeric leaves (else known finding F3); '
            'CacheColumns has a model of its own (regenerated CachedColumn.evaluate over the RAM table and disk store of the layer, the compiled graph of a column abstracted as a pair of partial functions): '
            'every history of requests, new processes and foreign entries returns the uncached value or a user exception that leaves the stores untouched, under the assumptions listed with the theorem '
            '(without the disjointness one it is refuted: finding F11); serializer round trip and real disk trusted'),
    'C05': ('Theorems: the value of every node is the inverse reading of its node hash, for all graphs without Silent arguments and all '
            'interpretations of the user functions (over the regenerated _make_hash bodies); hence equal hashes give equal values across graphs; '
            'Silent independence exactly; digests exact, Python == exact without numeric leaves. Refuted for the disk key of a column shard (ApplyHash(tuple, entry hashes) is the node hash of tuple(entry): finding F11, witness over the regenerated CachedColumn.evaluate). Hash terms of model and engine are compared on every case.',
            'pickler/digest injectivity trusted; External markers not modelled; F3 (== on leaves) is a known finding'),
    'C06': ('Theorems: a static hash reads back as a function of the entry id (placeholder = the id, a switch node = look the id up in the stored routing '
            'table) and for every graph of function, constant, identity, product, cache, barrier, hash-by-value, switch and CheckIds edges that function is what '
            'the sub-pipeline computes; hence equal static hashes of ANY two such sub-pipelines give the same function of the id (over the regenerated _hash_graph '
            'bodies; the pinned SwitchEdge body is refuted, F1). Per-edge injectivity lemmas; Graph.hash() terms of model and engine are compared; families of '
            'sub-pipeline variants are checked for collisions on the real code.',
            'sub-pipelines that themselves contain Filter / GroupBy / Join / Split edges (a static hash nested in a static hash) are covered by the translated hash '
            'makers and the collision oracle, not by the whole-graph theorem; switch tables are assumed to be dicts (no two ==-equal keys)'),
    'C07': ('Theorems: identity/cache/CheckIds/column/barrier edges are hash-transparent, a switch reports the selected branch hash, Silent '
            'arguments do not enter the hash (regenerated hash makers); a request through a cached column does not depend on the order in which the ids are listed. The digests of real pipelines are compared under 12 neutral rewrites and in 3 '
            'interpreters with different string-hash seeds.',
            'determinism of tarn.pickler across interpreters is observed, not proved; in-process equality of per-connection function objects (GroupBy/Join/Split) is outside the rewrites tested'),
    'C08': ('Theorems: LRU bound for every operation list incl. clear over the regenerated clear(); recency ("the cap most recently touched keys hit") '
            'on an abstract LRU table; shards partition the keys and contain the requested key (regenerated _get_shard arithmetic); a hit requests nothing '
            'upstream (regenerated CacheEdge.evaluate); after a request through a cached column every key of its shard is a RAM hit that runs the hash pass of its entry only (regenerated CachedColumn.evaluate). MemoryCache op lists, _get_shard, cached pipelines and column request sequences are run against the model.',
            'pylru itself is third-party (modelled, compared on op lists); float shard sizes enter as ceil(f*len) computed by the harness; '
            'hits across processes rest on C07'),
    'C11': ('Theorem: a call returns the cache-free value and keeps the store invariant under ANY environment that may change the shared caches '
            'before each of its cache accesses as long as entries stay Good (time-dependent, so every schedule of every number of threads), and its '
            'own writes are Good (guarantee); the same for a request through a cached column with interference before every store access (regenerated CachedColumn.evaluate); lock scopes and per-call eviction tables are regenerated facts. Real threads are run under all 2-thread '
            'schedules of bounded length with a lock-checking proxy table.',
            'granularity of switches = user-function calls and cache get/set; pre-emption inside pylru/dict under the lock and tarn lockers not modelled'),

    'C02': ('Theorems on a name-level model of layer stacks (expressions over raw inputs; finite / co-finite name sets with the REGENERATED AntiSet '
            'operators): connecting is substitution of the left outputs into the right expressions; a later definition replaces an earlier one, a name that '
            'is neither defined nor inherited disappears, an inherited one passes through unchanged. Random stacks (Source / Transform with parameters, '
            'inherit lists / True / exclude, persistent fields, caches, Apply, nested chains) are built on the real code and every exposed field is compared.',
            'the model is hand-written from containers/base.py and reversible.py and validated by the correspondence, not regenerated; '
            'values are symbolic terms (the engine side of what a field computes is C01)'),
    'C09': ('Theorems: composing layer bags is associative on outputs and virtual sets (AntiSet intersection laws, substitution composes), so any bracketing '
            'of a chain flattens to the left fold; real chains are rebuilt under random bracketings (nested Chain, LazyChain, >>) and compared field by field, '
            'with the same model as C02.',
            'associativity is proved for outputs / virtual names / persistent names; optional flags and loopback contexts are compared by the correspondence only'),
    'C10': ('Theorem for every chain of layers (x defined with or without a private parameter, inherited or absent; any @inverse fields, each with any backward '
            'arguments and possibly the parameter; any inherit set; cache layers) and any requested outputs: threading the contexts through the connections and '
            'reversing them computes forward fields in order ; f ; backward parts in reverse order, each with its own layer\'s parameter value, and is rejected exactly '
            'when x or a requested field is unreachable; a forward-only layer anywhere rejects. _decorate / _wrap / _loopback of real chains are compared with the model.',
            'the loopback model (Model/Loopback.v) is hand-written from containers/context.py and base.py and tied by the correspondence on chains of 1-6 generic layers '
            '(any number of backward fields, forward fields named like backward ones, same-name decoration, multi-output functions); Inverse._wrap and '
            'ChainContext.reverse are additionally tied by whole-body translator patterns'),
    'C12': ('Theorems on a model of the two-level content-addressed store at the granularity of single file-system mutations: for every interleaving of process '
            'steps, process deaths, loss of any blobs, loss or truncation of any index files and new processes, every answered call returns the value of its '
            'entry and no write meets a conflicting index; a hit names only present blobs; an uninterrupted call always ends with the entry readable, for any acyclic nesting of disk caches. The real '
            'store is run with every mutator intercepted: the tree before each mutation (checked against real kills), undamaged and under fault sets, is given '
            'to fresh pipelines and compared with the model and with a cache-free oracle.',
            'tarn is a trusted dependency that is exercised, not translated; the tie is the abstraction of real directory trees; a process death keeps the page '
            'cache (a machine crash that loses renamed data is outside); concurrency of writers is outside C12'),
    'C13': ('Theorems: the regenerated _detect_impure walk rejects exactly the graphs with an ImpureEdge reachable through parents from a cached output, for all '
            'DAGs; an impure edge has no static hash, so every keyed layer above it fails to build. Random pipelines with impure fields and every cache / keyed '
            'layer kind are built on the real code and compared (accepted vs rejected, and that impure functions run on every call when allowed).',
            'Filter / GroupBy / Join above an impure field are decided by the translated _hash_graph fact plus the harness, not by the walk theorem'),
    'C14': ('Theorems on a relational model of Merge: the id table is a function (an id twice is rejected at construction), the merged ids are the sorted union, '
            'every id is routed to the branch that owns it and only that branch runs (regenerated SwitchEdge generators). Real Merge layers over generated id '
            'sets and field sets are compared.',
            'field intersection and the persistent-field rules are compared by the correspondence only'),
    'C15': ('Theorems: Filter keeps exactly the ids whose predicate holds, in order, for every predicate and id list; keep / drop are the two membership '
            'predicates; CheckIds passes known ids unchanged and rejects the others (regenerated CheckIdsEdge._evaluate); other fields are untouched. Real '
            'Filter / CheckIds layers are compared on generated id sets and truth tables.',
            'predicates are total functions given as tables; a predicate that raises is covered by C04/F8'),
    'C16': ('Theorems on the relational model of Join over the REGENERATED ids_maker / id_maker: the joined ids per mode, a key twice on one side is rejected, '
            'each id is served from the sides that have it and, after the repair, only in the modes that keep that side (F6 refuted on the pinned body). Real Join '
            'layers over generated key tables in all four modes are compared.',
            'composite keys enter through an independent re-implementation of to_hash_id in the harness'),
    'C17': ('Theorems: GroupBy partitions the ids by key (every id in exactly one group, groups sorted, members sorted); Split produces each new id once or is '
            'rejected, and maps it back to its source id and part. Real GroupBy / Split layers are compared on generated tables.',
            'the RAM cache inside GroupBy is C04/C08; Split\'s interface class is exercised through the layer only'),
    'C18': ('Theorems on the name-level model: an output with an unreachable input is dropped silently exactly when it and every user on the path are optional, '
            'otherwise compiling raises a DependencyError naming it; caches make what they touch optional. The outcome (field list or error with the missing names) '
            'of random stacks is compared with GraphCompiler on the real code.',
            'same model as C02 (hand-written, validated); the text of error messages is not compared beyond the missing names'),
    'C19': ('Theorems: the copy is the same graph over the pickled store (RAM caches emptied by the REGENERATED MemoryCache.__reduce__, disk caches the same); for every '
            'graph and call meeting call_ok, every invariant-respecting store and interference, Graph.call and Graph.get_hash on the copy\'s store finish with the same '
            'value and the same node hash as on the original\'s (new refinement theorem for get_hash); no edge of the listed layer kinds holds a library-owned lambda or '
            'closure and MemoryCache is the only class with a pickling hook (regenerated tables). Random pipelines are pickled on the real code and compared.',
            'that pickle copies hook-free objects attribute by attribute is assumed; Graph.hash() of a copy is not covered (see DESIGN.md); Split and Join still hold '
            'local callables (not among the layer kinds C19 lists)'),
    'C20': ('Theorems: a memoised depth-first traversal visits every node once and makes at most |edges| + 1 calls for every DAG; the path-enumerating traversal and the '
            'tuple hashing of a k-layer crop stack are exponential (lower bounds); the REGENERATED traversal shapes of validate_graph, count_entries and _detect_impure '
            'are Memo after the repair. Python-level call counts of compile and call are measured on stacks of growing depth.',
            'F4b (RAM cache keys are nested tuples hashed recursively: exponential in a crop stack) is a known finding; wall-clock time is not compared, only call counts'),
}


def main():
    props = [json.loads(l) for l in open(os.path.join(VERIF, 'properties.jsonl'))]
    m = {
        'version': 1,
        'setup_cmd': 'cd /verif && python3 tools/setup.py',
        'hooks': {
            'guard': 'CONNECTOME_VERIF',
            'enable': 'no source hooks are needed: the harness wraps EvictionCache, MemoryCache and tarn file-system calls from outside; '
                      'checks run the unmodified /repo working tree with PYTHONPATH=/repo (the variable is set, nothing in /repo reads it)',
            'baseline_off_cmd': 'cd /repo && /venv/bin/python -m pytest -ra -q -p no:cacheprovider --timeout=900 --continue-on-collection-errors',
            'source_commits': [],
            'add_only': True,
        },
        'engines': [{'name': 'coq-model', 'path': '/verif/coq', 'serves_properties': sorted(CLAIMS),
                     'kind_free_text': 'Coq 8.16.1 development: executable model (Model/), regenerated kernels (Gen/), proofs (Proofs/), '
                                       'property theorems (Props/), generated case shards (Run/)'}],
        'checks': [], 'not_applicable': [],
        'notes': 'Seven unguarded "fix:" commits in /repo (F2 624b02f, F1 155c61c, F4a 7524fb1, F8-truncation a19c1d0, F6 4bbd446, F5 2f0c7d8, F12 bddc635) and the '
                 'known findings F3, F4b, F8, F9, F10, F11 are recorded in known_findings.json; see DESIGN.md sections 7 and 11.',
    }
    for p in props:
        pid = p['id']
        if pid in CLAIMS:
            text, note = CLAIMS[pid]
            m['checks'].append({
                'property_id': pid,
                'quick_cmd': f'./bin/check {pid} --tier quick',
                'thorough_cmd': f'./bin/check {pid} --tier thorough',
                'evidence_file': f'/verif/evidence/{pid}.json',
                'replay_cmd_template': f'./bin/check {pid} --replay {{path}}',
                'engine': 'coq-model',
                'level_claimed': {'category': 'proof', 'text': text, 'design_ref': f'DESIGN.md section 6 ({pid}) and section 11'},
                'level_note': 'trusted: Coq kernel, tools/translate.py, the hand-written parts of the model named in the evidence file, '
                              'the case-shard comparison (Model/CheckLib.v); partial: ' + note,
                'technique': TECH + ('; plus model-independent oracles on the real code: ' + ORACLES[pid] if pid in ORACLES else ''),
            })
        else:
            m['not_applicable'].append({'property_id': pid, 'reason': 'check not built yet in this session (work in progress, see DESIGN.md section 10)'})
    json.dump(m, open(os.path.join(VERIF, 'MANIFEST.json'), 'w'), indent=1)


if __name__ == '__main__':
    main()
