#!/usr/bin/env python3
"""Regenerates /verif/MANIFEST.json from the table below (one entry per claimed property)."""
import json
import os

VERIF = os.path.dirname(os.path.dirname(os.path.abspath(__file__)))
TECH = 'machine-checked proof in Coq 8.16 (model + theorems) + fail-closed translator + model/implementation correspondence'
CLAIMS = {
    'C01': ('Theorems over all DAG shapes and arbitrary generator trees: the stack machine simulates a recursive evaluator (Sim.v), '
            'which under the eviction-budget invariant returns the cache-free composition of the user functions (L2.v, Counts.v); '
            'instantiated for the regenerated edge generators. The machine model is tied to vm.py by full-trace agreement on generated DAGs.',
            'success direction only: when the specification value is defined (no user function raises, switch keys known) the call returns it '
            'and never gets stuck; exception propagation and cache edges inside the concrete instance rest on the correspondence'),
    'C03': ('Theorem: in a successful call no (hash|value, node) generator completes twice, for any graph, generator trees, caches and '
            'interference; the exact call log (which functions, order, laziness of switches and cache hits) is compared between the '
            'Coq machine and the real engine on every generated case, plus direct oracles on the implementation log.',
            'the "exactly the needed functions" half is decided by model/implementation agreement on the call log (a sample) and by oracles'),
}


def main():
    props = [json.loads(l) for l in open(os.path.join(VERIF, 'properties.jsonl'))]
    m = {
        'version': 1,
        'setup_cmd': 'cd /verif && python3 tools/setup.py',
        'hooks': {
            'guard': 'CONNECTOME_VERIF',
            'enable': 'no source hooks are needed: the harness wraps EvictionCache, MemoryCache and tarn file-system calls from outside; '
                      'checks run the unmodified /repo working tree with PYTHONPATH=/repo (the variable is set, nothing in /repo reads it)',
            'baseline_off_cmd': 'cd /repo && /venv/bin/python -m pytest -ra -q -p no:cacheprovider --timeout=900 --continue-on-collection-errors',
            'source_commits': [],
            'add_only': True,
        },
        'engines': [{'name': 'coq-model', 'path': '/verif/coq', 'serves_properties': sorted(CLAIMS),
                     'kind_free_text': 'Coq 8.16.1 development: executable model (Model/), regenerated kernels (Gen/), proofs (Proofs/), '
                                       'property theorems (Props/), generated case shards (Run/)'}],
        'checks': [], 'not_applicable': [],
        'notes': 'Three unguarded "fix:" commits in /repo (F2 624b02f, F1 155c61c, F4a 7524fb1) are recorded in known_findings.json; '
                 'see DESIGN.md sections 7 and 11.',
    }
    for p in props:
        pid = p['id']
        if pid in CLAIMS:
            text, note = CLAIMS[pid]
            m['checks'].append({
                'property_id': pid,
                'quick_cmd': f'./bin/check {pid} --tier quick',
                'thorough_cmd': f'./bin/check {pid} --tier thorough',
                'evidence_file': f'/verif/evidence/{pid}.json',
                'replay_cmd_template': f'./bin/check {pid} --replay {{path}}',
                'engine': 'coq-model',
                'level_claimed': {'category': 'proof', 'text': text, 'design_ref': f'DESIGN.md section 6 ({pid}) and section 11'},
                'level_note': 'trusted: Coq kernel, tools/translate.py, the hand-written parts of the model named in the evidence file, '
                              'the case-shard comparison (Model/CheckLib.v); partial: ' + note,
                'technique': TECH,
            })
        else:
            m['not_applicable'].append({'property_id': pid, 'reason': 'check not built yet in this session (work in progress, see DESIGN.md section 10)'})
    json.dump(m, open(os.path.join(VERIF, 'MANIFEST.json'), 'w'), indent=1)


if __name__ == '__main__':
    main()
