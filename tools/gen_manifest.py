#!/usr/bin/env python3
"""Regenerates /verif/MANIFEST.json from the table below (one entry per claimed property)."""
import json
import os

VERIF = os.path.dirname(os.path.dirname(os.path.abspath(__file__)))
TECH = 'machine-checked proof in Coq 8.16 (model + theorems) + fail-closed translator + model/implementation correspondence'
CLAIMS = {
    'C01': ('Theorems over all DAG shapes and arbitrary generator trees: the stack machine simulates a recursive evaluator (Sim.v), '
            'which under the eviction-budget invariant returns the cache-free composition of the user functions (L2.v, Counts.v); '
            'instantiated for the regenerated edge generators. The machine model is tied to vm.py by full-trace agreement on generated DAGs.',
            'success direction only: when the specification value is defined (no user function raises, switch keys known) the call returns it '
            'and never gets stuck; exception propagation and cache edges inside the concrete instance rest on the correspondence'),
    'C03': ('Theorem: in a successful call no (hash|value, node) generator completes twice, for any graph, generator trees, caches and '
            'interference; the exact call log (which functions, order, laziness of switches and cache hits) is compared between the '
            'Coq machine and the real engine on every generated case, plus direct oracles on the implementation log.',
            'the "exactly the needed functions" half is decided by model/implementation agreement on the call log (a sample) and by oracles'),
    'C04': ('Theorem over ALL histories of calls and clears on any sequence of graphs sharing the caches (rebuilds, variants), with arbitrary '
            'Good-preserving interference: every call returns the value of the cache-free recursive semantics; via the store invariant '
            '"every entry key is a hash whose inverse reading is the stored value" (hash soundness over the regenerated hash makers) and '
            'the machine/evaluator/spec refinement. Real pipelines with CacheToRam/CacheToDisk are run against the model on generated histories.',
            'success direction (no user function raises on the path of a cache node); keys without numeric leaves (else known finding F3); '
            'CacheColumns is not in the VM model: decided by oracles against the cache-free pipeline; serializer round trip and real disk trusted'),
    'C05': ('Theorems: the value of every node is the inverse reading of its node hash, for all graphs without Silent arguments and all '
            'interpretations of the user functions (over the regenerated _make_hash bodies); hence equal hashes give equal values across graphs; '
            'Silent independence exactly; digests exact, Python == exact without numeric leaves. Hash terms of model and engine are compared on every case.',
            'pickler/digest injectivity trusted; External markers not modelled; F3 (== on leaves) is a known finding'),
    'C06': ('Theorems: the regenerated static hash of a Merge switch determines the routing table and the branch hashes; function, product and '
            'constant edges are injective in their parts; the input placeholder is no constant; the pinned body is refuted (F1). Graph.hash() terms of '
            'model and engine are compared; families of sub-pipeline variants are checked for collisions on the real code.',
            'the full "equal static hash => same function of the id" is proved per edge (injectivity), composed only by the collision oracle; '
            'Filter/GroupBy/Join/Split edges are covered by translated hash makers and the oracle, not by the VM model'),
    'C07': ('Theorems: identity/cache/CheckIds/column/barrier edges are hash-transparent, a switch reports the selected branch hash, Silent '
            'arguments do not enter the hash (regenerated hash makers). The digests of real pipelines are compared under 12 neutral rewrites and in 3 '
            'interpreters with different string-hash seeds.',
            'determinism of tarn.pickler across interpreters is observed, not proved; in-process equality of per-connection function objects (GroupBy/Join/Split) is outside the rewrites tested'),
    'C08': ('Theorems: LRU bound for every operation list incl. clear over the regenerated clear(); recency ("the cap most recently touched keys hit") '
            'on an abstract LRU table; shards partition the keys and contain the requested key (regenerated _get_shard arithmetic); a hit requests nothing '
            'upstream (regenerated CacheEdge.evaluate). MemoryCache op lists, _get_shard and cached pipelines are run against the model.',
            'pylru itself is third-party (modelled, compared on op lists); float shard sizes enter as ceil(f*len) computed by the harness; '
            'hits across processes rest on C07'),
    'C11': ('Theorem: a call returns the cache-free value and keeps the store invariant under ANY environment that may change the shared caches '
            'before each of its cache accesses as long as entries stay Good (time-dependent, so every schedule of every number of threads), and its '
            'own writes are Good (guarantee); lock scopes and per-call eviction tables are regenerated facts. Real threads are run under all 2-thread '
            'schedules of bounded length with a lock-checking proxy table.',
            'granularity of switches = user-function calls and cache get/set; pre-emption inside pylru/dict under the lock and tarn lockers not modelled'),
}


def main():
    props = [json.loads(l) for l in open(os.path.join(VERIF, 'properties.jsonl'))]
    m = {
        'version': 1,
        'setup_cmd': 'cd /verif && python3 tools/setup.py',
        'hooks': {
            'guard': 'CONNECTOME_VERIF',
            'enable': 'no source hooks are needed: the harness wraps EvictionCache, MemoryCache and tarn file-system calls from outside; '
                      'checks run the unmodified /repo working tree with PYTHONPATH=/repo (the variable is set, nothing in /repo reads it)',
            'baseline_off_cmd': 'cd /repo && /venv/bin/python -m pytest -ra -q -p no:cacheprovider --timeout=900 --continue-on-collection-errors',
            'source_commits': [],
            'add_only': True,
        },
        'engines': [{'name': 'coq-model', 'path': '/verif/coq', 'serves_properties': sorted(CLAIMS),
                     'kind_free_text': 'Coq 8.16.1 development: executable model (Model/), regenerated kernels (Gen/), proofs (Proofs/), '
                                       'property theorems (Props/), generated case shards (Run/)'}],
        'checks': [], 'not_applicable': [],
        'notes': 'Three unguarded "fix:" commits in /repo (F2 624b02f, F1 155c61c, F4a 7524fb1) are recorded in known_findings.json; '
                 'see DESIGN.md sections 7 and 11.',
    }
    for p in props:
        pid = p['id']
        if pid in CLAIMS:
            text, note = CLAIMS[pid]
            m['checks'].append({
                'property_id': pid,
                'quick_cmd': f'./bin/check {pid} --tier quick',
                'thorough_cmd': f'./bin/check {pid} --tier thorough',
                'evidence_file': f'/verif/evidence/{pid}.json',
                'replay_cmd_template': f'./bin/check {pid} --replay {{path}}',
                'engine': 'coq-model',
                'level_claimed': {'category': 'proof', 'text': text, 'design_ref': f'DESIGN.md section 6 ({pid}) and section 11'},
                'level_note': 'trusted: Coq kernel, tools/translate.py, the hand-written parts of the model named in the evidence file, '
                              'the case-shard comparison (Model/CheckLib.v); partial: ' + note,
                'technique': TECH,
            })
        else:
            m['not_applicable'].append({'property_id': pid, 'reason': 'check not built yet in this session (work in progress, see DESIGN.md section 10)'})
    json.dump(m, open(os.path.join(VERIF, 'MANIFEST.json'), 'w'), indent=1)


if __name__ == '__main__':
    main()
