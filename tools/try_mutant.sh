#!/bin/sh
# usage: tools/try_mutant.sh <patch.diff> <ID> [<ID>...]   -- apply a seeded change to /repo, run the checks, undo it
patch="$1"; shift
cd /verif || exit 2
git -C /repo diff --quiet || { echo "/repo is dirty"; exit 2; }
git -C /repo apply "$patch" || exit 2
rm -rf /tmp/vwork/evidence.keep && cp -r evidence /tmp/vwork/evidence.keep
for id in "$@"; do
  ./bin/check "$id" --tier quick > /tmp/vwork/mut.out 2>&1; rc=$?
  tail -4 /tmp/vwork/mut.out
  echo "exit($id)=$rc"
done
git -C /repo checkout -- .
python3 tools/translate.py
rm -rf evidence && cp -r /tmp/vwork/evidence.keep evidence
git -C /repo status --short
