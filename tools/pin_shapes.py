#!/usr/bin/env python3
"""Rewrites the block of pinned fingerprints at the end of every coq/Props/C<k>.v from the current translation (coq/Gen): run it on a tree on which
every check passes, after a deliberate change of /repo (e.g. a `fix:` commit) moved a fingerprint.  The block pins, per property, the functions and
classes of /repo that hand-written parts of the model mirror or that form the glue around the modelled core (DESIGN.md section 4.1)."""
import os
import re
import sys

VERIF = os.path.dirname(os.path.dirname(os.path.abspath(__file__)))
GEN = os.path.join(VERIF, 'coq', 'Gen')
PROPS = os.path.join(VERIF, 'coq', 'Props')
PINS = {
    'C01': ['VmGen', 'GlueGraphGen'], 'C02': ['BagGen', 'GlueChainGen', 'GlueFactoryGen'], 'C03': ['VmGen', 'GlueGraphGen', 'GlueChainGen', 'GlueColumnsGen'],
    'C04': ['GlueCacheGen', 'GlueColumnsGen'], 'C05': ['GlueHashGen', 'GlueFactoryGen'], 'C06': ['GlueHashGen'], 'C07': ['GlueHashGen', 'GlueColumnsGen'],
    'C08': ['GlueCacheGen', 'GlueColumnsGen'], 'C09': ['BagGen', 'GlueChainGen', 'GlueFactoryGen'], 'C10': ['CtxGen', 'GlueChainGen', 'GlueFactoryGen'],
    'C11': ['GlueCacheGen', 'GlueGraphGen'], 'C12': ['GlueCacheGen'], 'C13': ['GlueCacheGen', 'GlueFactoryGen'], 'C14': ['GlueMergeGen'], 'C15': ['GlueFilterGen'],
    'C16': ['GlueJoinGen'], 'C17': ['GlueGroupGen', 'GlueSplitGen'], 'C18': ['BagGen', 'OptGen', 'GlueFilterGen', 'GlueJoinGen'],
    'C19': ['GlueFactoryGen', 'GlueCacheGen'], 'C20': ['VmGen', 'GlueGraphGen'],
}
BEGIN, END = '(* BEGIN PINNED FINGERPRINTS (tools/pin_shapes.py) *)', '(* END PINNED FINGERPRINTS *)'


def main():
    for pid, files in PINS.items():
        path = os.path.join(PROPS, pid + '.v')
        s = open(path).read()
        # drop an earlier block and the first, hand-placed version of the theorem
        s = re.sub(re.escape(BEGIN) + r'.*?' + re.escape(END) + r'\n?', '', s, flags=re.S)
        s = re.sub(r'\n\(\* [^\n]*\n(?:   [^\n]*\n)*Theorem ' + pid + r'_mirrored_functions_are_the_pinned_ones :.*?Print Assumptions ' + pid + r'_mirrored_functions_are_the_pinned_ones\.\n', '\n', s, flags=re.S)
        s = re.sub(r'^From Connectome Require (?:VmGen|BagGen|OptGen|CtxGen|BagGen OptGen)\.\n', '', s, flags=re.M)
        pins = []
        for f in files:
            text = open(os.path.join(GEN, f + '.v')).read()
            if 'translation_failed' in text:
                sys.exit(f'{f}.v failed to translate: nothing pinned')
            pins += [(f, n, h) for n, h in re.findall(r'Definition (\w+) : string := "(\w+)"', text)]
        conj = ' /\\\n  '.join(f'{f}.{n} = "{h}"%string' for f, n, h in pins)
        block = (f'{BEGIN}\n(* The functions and classes of /repo that hand-written parts of the model mirror (Model/VM.v, NameLevel.v, Loopback.v) and the glue around the modelled core\n'
                 f'   this property is anchored in: the fingerprints (sha256 of the normalised source, comments and docstrings dropped) are regenerated on every run; an edit of one\n'
                 f'   of them re-opens this property even if no sampled case shows a difference.  Rewritten by tools/pin_shapes.py on a tree on which every check passes. *)\n'
                 f'From Connectome Require {" ".join(files)}.\n'
                 f'Theorem {pid}_mirrored_functions_are_the_pinned_ones :\n  {conj}.\nProof. repeat split; reflexivity. Qed.\n'
                 f'Print Assumptions {pid}_mirrored_functions_are_the_pinned_ones.\n{END}\n')
        open(path, 'w').write(s.rstrip('\n') + '\n\n' + block)
        print(pid, len(pins), 'pins from', files)


if __name__ == '__main__':
    main()
