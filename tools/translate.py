#!/usr/bin/env python3
"""Fail-closed translator: small pure kernels of /repo/connectome -> Gallina text in /verif/coq/Gen/*.v.

Nothing from the repository is imported or executed; the files are parsed with `ast`.  Every kernel is
accepted only if it fits a tiny statement/expression subset; anything else raises Unsupported naming the
file, line and construct, and the caller (bin/check) reports the tie as broken.

Usage: translate.py [--repo /repo] [--out /verif/coq/Gen]     exit 0 = all kernels translated
Output files are rewritten only when their text changes (keeps `make` incremental).
A JSON report (kernels, source hashes, failures) goes to <out>/translate_report.json.
"""
import ast, hashlib, json, os, sys, textwrap


class Unsupported(Exception):
    pass


def fail(path, node, why):
    raise Unsupported(f'{path}:{getattr(node, "lineno", "?")}: {why}: {ast.unparse(node)[:100]}')


def strip_doc(stmts):
    return [s for s in stmts if not (isinstance(s, ast.Expr) and isinstance(s.value, ast.Constant))]


def parse(path):
    src = open(path).read()
    return src, ast.parse(src)


def find_class(tree, name):
    for n in tree.body:
        if isinstance(n, ast.ClassDef) and n.name == name:
            return n
    return None


def find_func(body, name):
    for n in body:
        if isinstance(n, ast.FunctionDef) and n.name == name:
            return n
    return None


def sha(src, node):
    return hashlib.sha256((ast.get_source_segment(src, node) or '').encode()).hexdigest()[:16]


def coq_str(s):
    return '"' + s.replace('"', '""') + '"'


# ----------------------------------------------------------------------------------------------------
# 1. generators (compute_hash / evaluate) and hash makers of the Edge classes
# ----------------------------------------------------------------------------------------------------
BUILTIN_FUNCS = {'tuple': 'builtins.tuple', 'filter': 'builtins.filter'}


class EdgeTr:
    """translation of one class' methods; `self_hash` maps `self._hash`-like attributes set in __init__"""

    def __init__(self, path, src, cls):
        self.path, self.src, self.cls = path, src, cls
        self.init_attrs = {}
        init = find_func(cls.body, '__init__')
        if init is not None:
            for s in ast.walk(init):
                if (isinstance(s, ast.Assign) and len(s.targets) == 1 and isinstance(s.targets[0], ast.Attribute)
                        and isinstance(s.targets[0].value, ast.Name) and s.targets[0].value.id == 'self'):
                    self.init_attrs[s.targets[0].attr] = s.value

    # ---- hash expressions (type nhash) over `inputs : list nhash`
    def hexpr(self, e, env):
        p = self.path
        if isinstance(e, ast.Name):
            if env.get(e.id) == 'nhash':
                return e.id
            fail(p, e, 'name is not a hash')
        if isinstance(e, ast.Subscript) and isinstance(e.value, ast.Name) and env.get(e.value.id) == 'hashes' \
                and isinstance(e.slice, ast.Constant) and isinstance(e.slice.value, int):
            return f'(nth {e.slice.value} {e.value.id} hnone)'
        if isinstance(e, ast.Attribute) and isinstance(e.value, ast.Name) and e.value.id == 'self':
            return self.self_hash_attr(e)
        if isinstance(e, ast.Call):
            f = ast.unparse(e.func)
            if f == 'LeafHash' and len(e.args) == 1 and not e.keywords:
                return f'(HLeaf {self.leaf(e.args[0], env)})'
            if f == 'ApplyHash':
                if not e.args:
                    fail(p, e, 'ApplyHash without function')
                fn = self.funcsym(e.args[0])
                args = self.hlist(e.args[1:], env)
                kw = '[]'
                for k in e.keywords:
                    if k.arg == 'kw_names' and ast.unparse(k.value) == 'self.kw_names':
                        kw = '(kw_names self)'
                    else:
                        fail(p, e, 'ApplyHash keyword')
                return f'(HApply {fn} {args} {kw})'
            if f == 'CustomHash' and e.args and isinstance(e.args[0], ast.Constant) and isinstance(e.args[0].value, str) \
                    and not e.keywords:
                return f'(HCustom {coq_str(e.args[0].value)} {self.hlist(e.args[1:], env)})'
        fail(p, e, 'hash expression outside the subset')

    def self_hash_attr(self, e):
        a = e.attr
        if a == '_hash' and a in self.init_attrs:
            v = self.init_attrs[a]
            if ast.unparse(v) == 'LeafHash(self.value)':
                return '(HLeaf (value self))'
            if ast.unparse(v) in ('self.graph.hash()', 'graph.hash()'):
                return '(graph_hash self)'
        fail(self.path, e, 'unknown hash attribute')

    def hlist(self, elts, env):
        """a list of positional hash arguments, possibly with one trailing/inner *starred list"""
        parts, cur = [], []
        for x in elts:
            if isinstance(x, ast.Starred):
                if cur:
                    parts.append('[' + '; '.join(cur) + ']')
                    cur = []
                v = x.value
                if isinstance(v, ast.Name) and env.get(v.id) == 'hashes':
                    parts.append(v.id)
                elif ast.unparse(v) == 'self._hashes' and '_hashes' in self.init_attrs and \
                        ast.unparse(self.init_attrs['_hashes']) in ('(left.hash(), right.hash())', 'left.hash(), right.hash()'):
                    parts.append('[left_hash self; right_hash self]')
                else:
                    fail(self.path, x, 'starred hash list')
            else:
                cur.append(self.hexpr(x, env))
        if cur or not parts:
            parts.append('[' + '; '.join(cur) + ']')
        return parts[0] if len(parts) == 1 else '(' + ' ++ '.join(parts) + ')'

    def funcsym(self, e):
        if isinstance(e, ast.Name) and e.id in BUILTIN_FUNCS:
            return coq_str(BUILTIN_FUNCS[e.id])
        if ast.unparse(e) == 'self.function':
            return '(function self)'
        fail(self.path, e, 'function position of ApplyHash')

    def leaf(self, e, env):
        """data of a LeafHash (type val)"""
        u = ast.unparse(e)
        if isinstance(e, ast.Constant) and e.value is None:
            return 'VNone'
        if u == 'self.value':
            return '(value self)'
        if u == 'self.index':
            return '(VNat (index self))'
        if u == 'self.to_key':
            return '(VFun (to_key self))'
        if u == 'self.algorithm':
            return '(algorithm self)'
        if u == 'self.return_value':
            return '(return_value self)'
        if u == 'tuple(sorted(self.id_to_index.items()))':
            return '(items_leaf (id_to_index self))'
        if isinstance(e, ast.Name) and env.get(e.id) == 'sval':
            return f'(unval {e.id})'
        if u == 'e.value' and env.get('e') == 'stop':
            return '(unval r)'
        fail(self.path, e, 'leaf data outside the subset')

    # ---- _make_hash / _hash_graph / _compute_hash bodies:  (self, inputs) -> ...
    def hash_method(self, m, result):
        """result: 'nhash' | 'option' (may raise HashError) | 'hashout'"""
        p = self.path
        args = [a.arg for a in m.args.args]
        if len(args) != 2 or args[0] != 'self':
            fail(p, m, 'signature')
        inp = args[1]
        env = {inp: 'hashes'}
        stmts = strip_doc(m.body)
        pre = ''
        # idiom: Silent overwrite loop of FunctionEdge._make_hash
        if stmts and isinstance(stmts[0], ast.If) and ast.unparse(stmts[0].test) == 'self.silent':
            norm = ast.unparse(stmts[0]).replace(' ', '')
            want = ('ifself.silent:\nsilent_hash=LeafHash(None)\n' + f'{inp}=list({inp})\n'
                    f'foridxinself.silent:\n{inp}[idx]=silent_hash').replace(' ', '')
            if norm != want:
                fail(p, stmts[0], 'silent idiom changed')
            pre = (f'let {inp} := if nonempty (silent self) then fold_left (fun acc idx => replace_nth idx (HLeaf VNone) acc) '
                   f'(silent self) {inp} else {inp} in\n  ')
            stmts = stmts[1:]
        # `keys, = hashes`
        while stmts and isinstance(stmts[0], ast.Assign) and isinstance(stmts[0].targets[0], ast.Tuple) \
                and isinstance(stmts[0].value, ast.Name) and env.get(stmts[0].value.id) == 'hashes':
            names = [t.id for t in stmts[0].targets[0].elts]
            for i, nme in enumerate(names):
                pre += f'let {nme} := nth {i} {stmts[0].value.id} hnone in\n  '
                env[nme] = 'nhash'
            stmts = stmts[1:]
        if len(stmts) != 1:
            fail(p, m, 'hash method body shape')
        s = stmts[0]
        if isinstance(s, ast.Raise):
            if result != 'option' or 'HashError' not in ast.unparse(s):
                fail(p, s, 'raise in a hash method')
            return f'(* {inp} *) None'
        if not isinstance(s, ast.Return):
            fail(p, s, 'expected return')
        v = s.value
        if result == 'hashout':
            if not (isinstance(v, ast.Tuple) and len(v.elts) == 2 and isinstance(v.elts[1], ast.Constant)
                    and v.elts[1].value is None):
                fail(p, s, 'HashOutput shape')
            h = self.hexpr_or_virtual(v.elts[0], env, inp)
            return pre + f'SHashOut {h} SNoneS'
        if result == 'option' and ast.unparse(v) == f'self.edge.hash_graph({inp})':
            return pre + f'edge_hash_graph self {inp}'
        h = self.hexpr_or_virtual(v, env, inp)
        return pre + (f'Some {h}' if result == 'option' else h)

    def hexpr_or_virtual(self, e, env, inp):
        if ast.unparse(e) == f'self._make_hash({inp})':
            return f'(make_hash_of self {inp})'
        return self.hexpr(e, env)

    # ---- generators
    def req(self, e):
        p = self.path
        elts = e.elts if isinstance(e, ast.Tuple) else [e]
        head = elts[0]
        if not (isinstance(head, ast.Attribute) and isinstance(head.value, ast.Name) and head.value.id == 'Command'):
            fail(p, e, 'not a Command request')
        name = head.attr
        if name in ('CurrentHash', 'Payload') and len(elts) == 1:
            return f'R{name}'
        if name in ('ParentHash', 'ParentValue') and len(elts) == 2:
            return f'(R{name} {self.natexpr(elts[1])})'
        if name == 'Await' and len(elts) == 2 and isinstance(elts[1], ast.Starred):
            g = elts[1].value
            if (isinstance(g, ast.GeneratorExp) and len(g.generators) == 1 and not g.generators[0].ifs
                    and ast.unparse(g.generators[0].iter) == 'range(self.arity)'
                    and isinstance(g.generators[0].target, ast.Name)):
                idx = g.generators[0].target.id
                inner = g.elt
                if not (isinstance(inner, ast.Tuple) and len(inner.elts) == 2 and isinstance(inner.elts[1], ast.Name)
                        and inner.elts[1].id == idx and ast.unparse(inner.elts[0]) in ('Command.ParentHash', 'Command.ParentValue')):
                    fail(p, e, 'Await element')
                return f'(RAwait (map (fun idx => R{inner.elts[0].attr} idx) (seq 0 (arity self))))'
        if name == 'Await' and len(elts) >= 2 and all(isinstance(x, ast.Tuple) for x in elts[1:]):
            return '(RAwait [' + '; '.join(self.req(x) for x in elts[1:]) + '])'
        if name == 'Call' and len(elts) == 4 and ast.unparse(elts[1]) == 'self.function' \
                and isinstance(elts[2], ast.Name) and isinstance(elts[3], ast.Name):
            return f'(RCall (function self) {elts[2].id} {elts[3].id})'
        fail(p, e, 'unsupported request')

    def natexpr(self, e):
        if isinstance(e, ast.Constant) and isinstance(e.value, int) and e.value >= 0:
            return str(e.value)
        if isinstance(e, ast.Name):
            return f'(unnat {e.id})'
        if isinstance(e, ast.BinOp) and isinstance(e.op, ast.Add):
            return f'({self.natexpr(e.left)} + {self.natexpr(e.right)})'
        fail(self.path, e, 'index expression')

    def sexpr(self, e, env):
        """an expression whose value is an sval"""
        p = self.path
        if isinstance(e, ast.Name) and env.get(e.id) in ('sval', 'nat'):
            return e.id
        if isinstance(e, ast.Constant) and e.value is None:
            return 'SNoneS'
        if isinstance(e, ast.Constant) and isinstance(e.value, bool):
            return f'(SVal (VBool {"true" if e.value else "false"}))'
        if isinstance(e, ast.Call) and ast.unparse(e.func) == 'LeafHash' and len(e.args) == 1:
            return f'(SHash (HLeaf {self.leaf(e.args[0], env)}))'
        if ast.unparse(e) == 'e.value' and env.get('e') == 'stop':
            return 'r'
        fail(p, e, 'value expression outside the subset')

    def ret(self, e, env):
        p = self.path
        if isinstance(e, ast.Yield):
            return f'GYield {self.req(e.value)} (fun r => GRet r)'
        if isinstance(e, ast.Tuple) and len(e.elts) == 2:   # (hash, payload)
            h, pl = e.elts
            return f'GRet (SHashOut (unhash {self.sexpr(h, env)}) {self.sexpr(pl, env)})'
        if isinstance(e, ast.Call) and ast.unparse(e.func) == 'self._compute_hash' and len(e.args) == 1 \
                and isinstance(e.args[0], ast.Name):
            return f'GRet (compute_hash_of self (map unhash (untup {e.args[0].id})))'
        if isinstance(e, ast.Call) and ast.unparse(e.func) == 'self._evaluate' and len(e.args) == 1 \
                and isinstance(e.args[0], ast.Name):
            return f'evaluate_of self (untup {e.args[0].id})'
        return f'GRet {self.sexpr(e, env)}'

    def gbody(self, stmts, env):
        p = self.path
        if not stmts:
            fail(p, self.cls, 'generator falls off the end')
        s, rest = stmts[0], stmts[1:]
        u = ast.unparse(s)
        # idiom: keyword split of FunctionEdge.evaluate
        if isinstance(s, ast.If) and ast.unparse(s.test) == 'self.kw_names':
            want = ('ifself.kw_names:\nargs=inputs[:-len(self.kw_names)]\n'
                    'kwargs={k:vfork,vinzip(self.kw_names,inputs[-len(self.kw_names):])}\nelse:\nargs,kwargs=(inputs,{})')
            if u.replace(' ', '') != want or env.get('inputs') != 'sval':
                fail(p, s, 'keyword split idiom changed')
            env = dict(env, args='vals', kwargs='kwvals')
            return ('let vs := map unval (untup inputs) in\n  let npos := List.length vs - List.length (kw_names self) in\n'
                    '  let args := if nonempty (kw_names self) then firstn npos vs else vs in\n'
                    '  let kwargs := if nonempty (kw_names self) then zip (kw_names self) (skipn npos vs) else [] in\n  '
                    + self.gbody(rest, env))
        # idiom: cache prepare / get / early return
        if (len(stmts) >= 3 and u == 'key, context = self.cache.prepare(output)'
                and ast.unparse(stmts[1]) == 'value, exists = self.cache.get(key, context)'
                and isinstance(stmts[2], ast.If) and ast.unparse(stmts[2].test) == 'exists'
                and len(stmts[2].body) == 1 and ast.unparse(stmts[2].body[0]) == 'return value' and not stmts[2].orelse
                and env.get('output') == 'sval'):
            env2 = dict(env, value='sval', key='key')
            return ('GGet (cache self) output (fun hit => match hit with Some value => GRet value | None =>\n  '
                    + self.gbody(stmts[3:], env2) + ' end)')
        if u == 'self.cache.set(key, value, context)' and env.get('key') == 'key' and env.get('value') == 'sval':
            return f'GSet (cache self) output value ({self.gbody(rest, env)})'
        # NAME = yield REQ
        if isinstance(s, ast.Assign) and isinstance(s.value, ast.Yield) and len(s.targets) == 1 \
                and isinstance(s.targets[0], ast.Name):
            t = s.targets[0].id
            return f'GYield {self.req(s.value.value)} (fun {t} =>\n  {self.gbody(rest, dict(env, **{t: "sval"}))})'
        # try: idx = self.TABLE[key] / except KeyError: raise ValueError(...) from None
        if (isinstance(s, ast.Try) and len(s.body) == 1 and isinstance(s.body[0], ast.Assign)
                and isinstance(s.body[0].value, ast.Subscript) and len(s.handlers) == 1 and not s.orelse and not s.finalbody
                and ast.unparse(s.handlers[0].type) == 'KeyError' and len(s.handlers[0].body) == 1
                and isinstance(s.handlers[0].body[0], ast.Raise)
                and ast.unparse(s.handlers[0].body[0].exc.func) == 'ValueError'):
            tgt = s.body[0].targets[0].id
            sub = s.body[0].value
            if ast.unparse(sub.value) != 'self.id_to_index' or not isinstance(sub.slice, ast.Name) \
                    or env.get(sub.slice.id) != 'sval':
                fail(p, s, 'table lookup')
            return (f'match lookup (id_to_index self) (unval {sub.slice.id}) with\n'
                    f'  | None => GRaise (EValue "Identifier not found")\n'
                    f'  | Some {tgt}_n => let {tgt} := SVal (VNat {tgt}_n) in\n  '
                    f'{self.gbody(rest, dict(env, **{tgt: "sval"}))}\n  end')
        if isinstance(s, ast.Return):
            if rest:
                fail(p, rest[0], 'code after return')
            return self.ret(s.value, env)
        fail(p, s, 'statement outside the subset')

    def generator(self, m):
        stmts = strip_doc(m.body)
        u = ast.unparse(ast.Module(body=stmts, type_ignores=[])).replace(' ', '')
        # whole-body idiom: the relay loop of ComputableHashBase.compute_hash
        relay = ('iterator,value=(self.edge.evaluate(),None)\ntry:\nwhileTrue:\nvalue=(yielditerator.send(value))\n'
                 'exceptStopIterationase:\nreturn(LeafHash(e.value),e.value)')
        if u == relay:
            return 'relay (edge_evaluate self)'
        return self.gbody(stmts, {})


EDGE_SITES = [
    # (file, class, [(method, kind)])   kind: gen | nhash | option | hashout
    ('engine/edges.py', 'StaticHash', [('compute_hash', 'gen')]),
    ('engine/edges.py', 'StaticGraph', [('_compute_hash', 'hashout'), ('_hash_graph', 'option')]),
    ('engine/edges.py', 'StaticEdge', [('evaluate', 'gen')]),
    ('engine/edges.py', 'FunctionEdge', [('_make_hash', 'nhash'), ('evaluate', 'gen')]),
    ('engine/edges.py', 'ComputableHashBase', [('compute_hash', 'gen'), ('evaluate', 'gen')]),
    ('engine/edges.py', 'ComputableHashEdge', [('_hash_graph', 'option')]),
    ('engine/edges.py', 'ImpureEdge', [('_hash_graph', 'option')]),
    ('engine/edges.py', 'IdentityEdge', [('_make_hash', 'nhash'), ('_evaluate', 'eval')]),
    ('engine/edges.py', 'ConstantEdge', [('_compute_hash', 'hashout'), ('_evaluate', 'eval'), ('_hash_graph', 'option')]),
    ('engine/edges.py', 'CacheEdge', [('_make_hash', 'nhash'), ('evaluate', 'gen')]),
    ('engine/edges.py', 'ProductEdge', [('_make_hash', 'nhash'), ('_evaluate', 'eval')]),
    ('engine/edges.py', 'HashBarrier', [('compute_hash', 'gen'), ('evaluate', 'gen'), ('_hash_graph', 'option')]),
    ('layers/merge.py', 'SwitchEdge', [('compute_hash', 'gen'), ('evaluate', 'gen'), ('_hash_graph', 'option')]),
    ('layers/check_ids.py', 'CheckIdsEdge', [('_make_hash', 'nhash'), ('_evaluate', 'eval')]),
    ('layers/filter.py', 'FilterEdge', [('_make_hash', 'nhash')]),
    ('layers/group.py', 'GroupEdge', [('_make_hash', 'nhash')]),
    ('layers/group.py', 'GroupMapping', [('_make_hash', 'nhash')]),
    ('layers/join.py', 'JoinMapping', [('_make_hash', 'nhash')]),
    ('layers/join.py', 'SwitchBranch', [('_hash_graph', 'option')]),
    ('layers/join.py', 'SwitchMissing', [('_hash_graph', 'option')]),
    ('layers/split.py', 'SplitMapping', [('_make_hash', 'nhash')]),
    ('layers/columns.py', 'CachedColumn', [('compute_hash', 'gen'), ('_hash_graph', 'option')]),
    ('layers/debug.py', 'HashDigestEdge', [('_make_hash', 'nhash')]),
]


def eval_method(tr, m):
    """_evaluate(self, inputs) bodies: value of a StaticEdge from the parents' values; result is a gen (may raise)"""
    p = tr.path
    args = [a.arg for a in m.args.args]
    if len(args) != 2:
        fail(p, m, 'signature')
    inp = args[1]
    stmts = strip_doc(m.body)
    u = ast.unparse(ast.Module(body=stmts, type_ignores=[])).replace(' ', '')
    if u == f'return{inp}[0]':
        return f'GRet (nth 0 {inp} SNoneS)'
    if u == 'returnself.value':
        return f'(* {inp} *) GRet (SVal (value self))'
    if u == f'returntuple({inp})':
        return f'GRet (SVal (VTuple (map unval {inp})))'
    if u == (f'id_,ids={inp}\nifid_inids:\nreturnid_\nraiseKeyError(f\'{{id_}}isnotinids\')'):
        return (f'let id_ := nth 0 {inp} SNoneS in let ids := nth 1 {inp} SNoneS in\n'
                f'  if val_in (unval id_) (unval ids) then GRet id_ else GRaise (EKey "is not in ids")')
    fail(p, m, '_evaluate body outside the subset')


def gen_edges(repo, report):
    out = ['(* GENERATED by tools/translate.py from the Edge classes of /repo/connectome. Do not edit. *)',
           'From Connectome Require Import Values Attrs.', '']
    for rel, cname, methods in EDGE_SITES:
        path = os.path.join(repo, 'connectome', rel)
        src, tree = parse(path)
        cls = find_class(tree, cname)
        if cls is None:
            raise Unsupported(f'{path}: class {cname} not found')
        tr = EdgeTr(path, src, cls)
        for mname, kind in methods:
            m = find_func(cls.body, mname)
            if m is None:
                raise Unsupported(f'{path}: {cname}.{mname} not found')
            ident = f'{cname}_{mname}'.replace('__', '_')
            h = sha(src, m)
            report['kernels'].append({'kernel': f'{cname}.{mname}', 'file': rel, 'line': m.lineno, 'sha256_16': h})
            out.append(f'(* {rel}:{m.lineno} {cname}.{mname}  sha256/16 {h} *)')
            if kind == 'gen':
                out.append(f'Definition {ident} (self : attrs) : gen :=\n  {tr.generator(m)}.\n')
            elif kind == 'eval':
                out.append(f'Definition {ident} (self : attrs) (inputs : list sval) : gen :=\n  {eval_method(tr, m)}.\n')
            else:
                inp = m.args.args[1].arg
                ty = {'nhash': 'nhash', 'option': 'option nhash', 'hashout': 'sval'}[kind]
                out.append(f'Definition {ident} (self : attrs) ({inp} : list nhash) : {ty} :=\n  {tr.hash_method(m, kind)}.\n')
    # the method resolution table the hand-written Model/Edges.v relies on: which class defines which method
    out.append('(* class -> bases, as written in the source (checked against the real MRO by the correspondence) *)')
    bases = []
    for rel in sorted({r for r, _, _ in EDGE_SITES}):
        src, tree = parse(os.path.join(repo, 'connectome', rel))
        for n in tree.body:
            if isinstance(n, ast.ClassDef) and any(n.name == c for r, c, _ in EDGE_SITES if r == rel):
                bases.append((n.name, [ast.unparse(b) for b in n.bases]))
    out.append('Definition class_bases : list (string * list string) := [\n  ' + ';\n  '.join(
        f'({coq_str(c)}, [{"; ".join(coq_str(b) for b in bs)}])' for c, bs in bases) + '].\n')
    return '\n'.join(out)


# ----------------------------------------------------------------------------------------------------
# 2. node_hash.py: the value tuples of the four constructors and __eq__
# ----------------------------------------------------------------------------------------------------
def gen_nodehash(repo, report):
    path = os.path.join(repo, 'connectome/engine/node_hash.py')
    src, tree = parse(path)
    out = ['(* GENERATED by tools/translate.py from connectome/engine/node_hash.py. Do not edit. *)',
           'From Connectome Require Import Values.', '']
    tags, fields = [], []
    for cname in ('LeafHash', 'ApplyHash', 'GraphHash', 'CustomHash'):
        cls = find_class(tree, cname)
        if cls is None:
            raise Unsupported(f'{path}: {cname} missing')
        tag = None
        for s in cls.body:
            if isinstance(s, ast.Assign) and ast.unparse(s.targets[0]) == 'type' and isinstance(s.value, ast.Constant):
                tag = s.value.value
        if not isinstance(tag, int):
            fail(path, cls, 'type tag')
        init = find_func(cls.body, '__init__')
        report['kernels'].append({'kernel': f'{cname}.__init__', 'file': 'engine/node_hash.py', 'line': init.lineno,
                                  'sha256_16': sha(src, init)})
        # find the value tuple: first positional argument of super().__init__(value, target) or `value = ...`
        val = None
        for s in ast.walk(init):
            if isinstance(s, ast.Call) and ast.unparse(s.func) == 'super().__init__' and len(s.args) == 2:
                val = s.args[0]
        if val is None:
            fail(path, init, 'super().__init__(value, target) not found')
        if isinstance(val, ast.Name):
            vname = val.id
            for s in init.body:
                if isinstance(s, ast.Assign) and ast.unparse(s.targets[0]) == vname:
                    val = s.value
        if not isinstance(val, ast.Tuple):
            fail(path, val, 'value is not a tuple')
        comps = []
        for x in val.elts:
            u = ast.unparse(x).replace(' ', '')
            if u == 'self.type':
                comps.append('tag')
            elif u in ('data', 'func', 'kw_names', 'marker'):
                comps.append(u)
            elif u == 'tuple((h.valueforhinargs))' or u == 'tuple(h.valueforhinargs)':
                comps.append('args.value')
            elif u == 'output.value':
                comps.append('output.value')
            elif u == '*(h.valueforhinchildren)':
                comps.append('*children.value')
            else:
                fail(path, x, 'component of a hash value')
        tags.append(tag)
        fields.append((cname, comps))
    out.append('Definition hash_tags : list nat := [' + '; '.join(map(str, tags)) + '].')
    for cname, comps in fields:
        out.append(f'Definition {cname}_value : list string := [' + '; '.join(coq_str(c) for c in comps) + '].')
    nh = find_class(tree, 'NodeHash')
    eq = find_func(nh.body, '__eq__')
    report['kernels'].append({'kernel': 'NodeHash.__eq__', 'file': 'engine/node_hash.py', 'line': eq.lineno,
                              'sha256_16': sha(src, eq)})
    body = strip_doc(eq.body)
    if len(body) != 1 or ast.unparse(body[0]).replace(' ', '') != 'returnisinstance(other,NodeHash)andself.value==other.value':
        fail(path, eq, 'NodeHash.__eq__')
    out.append('Definition nodehash_eq_compares : string := "value".')
    return '\n'.join(out) + '\n'


# ----------------------------------------------------------------------------------------------------
# 3. AntiSet operators (utils.py) over list-based name sets
# ----------------------------------------------------------------------------------------------------
def gen_antiset(repo, report):
    path = os.path.join(repo, 'connectome/utils.py')
    src, tree = parse(path)
    cls = find_class(tree, 'AntiSet')
    if cls is None:
        raise Unsupported(f'{path}: AntiSet missing')

    def expr(e, env):
        if isinstance(e, ast.Attribute) and isinstance(e.value, ast.Name) and e.attr == 'excluded':
            if env.get(e.value.id) == 'anti':
                return (f'{e.value.id}_ex', 'fin')
            fail(path, e, 'excluded of a non-AntiSet')
        if isinstance(e, ast.Name):
            if env.get(e.id) == 'fin':
                return (e.id, 'fin')
            if env.get(e.id) == 'anti':
                return (f'(Co {e.id}_ex)', 'ns')
            fail(path, e, 'unknown name')
        if isinstance(e, ast.BinOp) and isinstance(e.op, (ast.BitOr, ast.BitAnd, ast.Sub)):
            (l, tl), (r, tr) = expr(e.left, env), expr(e.right, env)
            if tl == tr == 'fin':
                op = {ast.BitOr: 'lunion', ast.BitAnd: 'linter', ast.Sub: 'ldiff'}[type(e.op)]
                return (f'({op} {l} {r})', 'fin')
            if isinstance(e.left, ast.Name) and env.get(e.left.id) == 'anti':
                opn = {ast.BitOr: 'or', ast.BitAnd: 'and', ast.Sub: 'sub'}[type(e.op)]
                return (f'(as_{opn} {e.left.id}_ex {as_ns((r, tr))})', 'ns')
            fail(path, e, f'operator on {tl},{tr}')
        if isinstance(e, ast.Call) and isinstance(e.func, ast.Name) and e.func.id == 'AntiSet' and len(e.args) == 1:
            a, t = expr(e.args[0], env)
            if t != 'fin':
                fail(path, e, 'AntiSet(non-finite)')
            return (f'(Co {a})', 'ns')
        fail(path, e, 'expression outside the subset')

    def as_ns(tt):
        t, ty = tt
        return t if ty == 'ns' else f'(Fin {t})'

    def method(name):
        f = find_func(cls.body, name)
        if f is None:
            raise Unsupported(f'{path}: AntiSet.{name} missing')
        report['kernels'].append({'kernel': f'AntiSet.{name}', 'file': 'utils.py', 'line': f.lineno, 'sha256_16': sha(src, f)})
        if [a.arg for a in f.args.args] != ['self', 'other']:
            fail(path, f, 'signature')
        body = strip_doc(f.body)
        if len(body) != 2 or not isinstance(body[0], ast.If) or not isinstance(body[1], ast.Return):
            fail(path, f, 'body shape')
        if ast.unparse(body[0].test) != 'isinstance(other, AntiSet)':
            fail(path, body[0].test, 'test')
        if len(body[0].body) != 1 or not isinstance(body[0].body[0], ast.Return) or body[0].orelse:
            fail(path, body[0], 'if body')
        e_anti = as_ns(expr(body[0].body[0].value, {'self': 'anti', 'other': 'anti'}))
        e_fin = as_ns(expr(body[1].value, {'self': 'anti', 'other': 'fin'}))
        return (f'Definition as_{name.strip("_")} (self_ex : list string) (other : nameset) : nameset :=\n'
                f'  match other with\n  | Co other_ex => {e_anti}\n  | Fin other => {e_fin}\n  end.\n')

    out = ['(* GENERATED by tools/translate.py from connectome/utils.py (class AntiSet). Do not edit. *)',
           'From Connectome Require Import NameSet.', '']
    # order matters: __rsub__ calls __sub__ on the other operand
    for m in ['__and__', '__sub__', '__or__']:
        out.append(method(m))
    # __rsub__(self, other): other - self
    f = find_func(cls.body, '__rsub__')
    report['kernels'].append({'kernel': 'AntiSet.__rsub__', 'file': 'utils.py', 'line': f.lineno, 'sha256_16': sha(src, f)})
    body = strip_doc(f.body)
    want = 'ifisinstance(other,AntiSet):\nreturnother-self\nreturnself.excluded&other'
    if ast.unparse(ast.Module(body=body, type_ignores=[])).replace(' ', '') != want:
        fail(path, f, '__rsub__ body')
    out.append('Definition as_rsub (self_ex : list string) (other : nameset) : nameset :=\n'
               '  match other with\n  | Co other_ex => as_sub other_ex (Co self_ex)\n  | Fin other => Fin (linter self_ex other)\n  end.\n')
    # __contains__
    f = find_func(cls.body, '__contains__')
    report['kernels'].append({'kernel': 'AntiSet.__contains__', 'file': 'utils.py', 'line': f.lineno, 'sha256_16': sha(src, f)})
    if ast.unparse(ast.Module(body=strip_doc(f.body), type_ignores=[])).replace(' ', '') != 'returnitemnotinself.excluded':
        fail(path, f, '__contains__ body')
    out.append('Definition as_contains (self_ex : list string) (item : string) : bool := negb (lmem item self_ex).\n')
    # aliases
    al = {}
    for s in cls.body:
        if isinstance(s, ast.Assign) and isinstance(s.value, ast.Name) and len(s.targets) == 1 and isinstance(s.targets[0], ast.Name):
            al[s.targets[0].id] = s.value.id
    if al.get('__rand__') != '__and__' or al.get('__ror__') != '__or__':
        fail(path, cls, '__rand__/__ror__ aliases')
    out.append('Definition as_rand := as_and.\nDefinition as_ror := as_or.\n')
    return '\n'.join(out)


# ----------------------------------------------------------------------------------------------------
# 4. miscellaneous kernels: EvictionCache, traversal shapes, Graph.__init__, MemoryCache, _get_shard,
#    join id makers, library-owned callables
# ----------------------------------------------------------------------------------------------------
def norm(stmts):
    return ast.unparse(ast.Module(body=strip_doc(stmts), type_ignores=[])).replace(' ', '')


def traversal_shape(path, fn, inner_name, memo_names):
    """Memo if the recursive local function returns early on membership of the node in a container that it also
    adds the node to before recursing; PerPath otherwise."""
    inner = find_func(fn.body, inner_name) if inner_name else fn
    if inner is None:
        fail(path, fn, f'local function {inner_name} not found')
    param = inner.args.args[0].arg
    guarded, added = False, False
    for s in ast.walk(inner):
        if isinstance(s, ast.If):
            t = ast.unparse(s.test).replace(' ', '')
            for mname in memo_names:
                if f'{param}in{mname}' in t or f'{param}notin{mname}' in t:
                    guarded = True
        if isinstance(s, ast.Call) and isinstance(s.func, ast.Attribute) and s.func.attr == 'add' \
                and ast.unparse(s.func.value) in memo_names and len(s.args) == 1 and ast.unparse(s.args[0]) == param:
            added = True
        if isinstance(s, ast.Assign) and isinstance(s.targets[0], ast.Subscript) \
                and ast.unparse(s.targets[0].value) in memo_names and ast.unparse(s.targets[0].slice) == param:
            added = True
    # does it recurse at all?
    rec = any(isinstance(s, ast.Call) and (ast.unparse(s.func).endswith(inner.name)) for s in ast.walk(inner))
    mapped = any(isinstance(s, ast.Call) and ast.unparse(s.func) == 'map' and s.args and ast.unparse(s.args[0]) == inner.name
                 for s in ast.walk(inner))
    if not (rec or mapped):
        fail(path, inner, 'not recursive')
    return 'Memo' if (guarded and added) else 'PerPath'


MISC_FILES = ('EvictGen', 'GraphGen', 'TravGen', 'MemGen', 'MemPickleGen', 'ShardGen', 'JoinGen', 'LoopGen', 'DiskGen', 'PickleGen')

def gen_misc(repo, report, only):
    """one of the small generated files (MISC_FILES); each is produced on its own, so that a kernel that lost its shape fails its own file only"""
    out = [f'(* GENERATED by tools/translate.py ({only}). Do not edit. *)', 'From Connectome Require Import Values.', 'From Coq Require Import ZArith.', '']
    C = os.path.join(repo, 'connectome')

    def note(kernel, rel, node, src):
        report['kernels'].append({'kernel': kernel, 'file': rel, 'line': node.lineno, 'sha256_16': sha(src, node)})

    # --- EvictionCache
    if only == 'EvictGen':
        path = os.path.join(C, 'engine/utils.py')
        src, tree = parse(path)
        ec = find_class(tree, 'EvictionCache')
        ev = find_func(ec.body, 'evict')
        note('EvictionCache.evict', 'engine/utils.py', ev, src)
        want = ('count=self.counts[key]\nassertcount>0,count\nifcount==1:\nself.counts.pop(key)\nself.cache.pop(key,None)\n'
                'else:\nself.counts[key]=count-1')
        if norm(ev.body) != want:
            fail(path, ev, 'EvictionCache.evict changed')
        st = find_func(ec.body, '__setitem__')
        note('EvictionCache.__setitem__', 'engine/utils.py', st, src)
        if norm(st.body) != 'assertkeyinself.counts\nself.cache[key]=value':
            fail(path, st, 'EvictionCache.__setitem__ changed')
        ct = find_func(ec.body, '__contains__')
        if norm(ct.body) != 'returnkeyinself.cache':
            fail(path, ct, 'EvictionCache.__contains__ changed')
        gi = find_func(ec.body, '__getitem__')
        if norm(gi.body) != 'returnself.cache[key]':
            fail(path, gi, 'EvictionCache.__getitem__ changed')
        out.append('(* engine/utils.py: EvictionCache.evict = "decrement; at 1 drop counter and value"; __setitem__ asserts the key is counted *)')
        out.append('Definition evict_rule : string := "pop-at-one-else-decrement".')
        out.append('Definition setitem_asserts_counted : bool := true.\n')

    # --- graph.py
    if only == 'GraphGen':
        path = os.path.join(C, 'engine/graph.py')
        src, tree = parse(path)
        g = find_class(tree, 'Graph')
        init = find_func(g.body, '__init__')
        note('Graph.__init__', 'engine/graph.py', init, src)
        mult = None
        for s in ast.walk(init):
            if isinstance(s, ast.Call) and ast.unparse(s.func) == 'count_entries':
                for k in s.keywords:
                    if k.arg == 'multiplier' and isinstance(k.value, ast.Constant):
                        mult = k.value.value
        if not isinstance(mult, int):
            fail(path, init, 'count_entries multiplier literal')
        n = norm(init.body)
        if 'inputs=sorted([xforxininputsifcounts.get(x,0)],key=lambdax:x.name)' not in n:
            fail(path, init, 'signature rule changed')
        if 'validate_graph(inputs,output)' not in n:
            fail(path, init, 'validate_graph call missing')
        out.append(f'Definition graph_multiplier : nat := {mult}.')
        out.append('Definition signature_rule : string := "used inputs sorted by name".')
        pc = find_func(g.body, '_prepare_cache')
        note('Graph._prepare_cache', 'engine/graph.py', pc, src)
        n = norm(pc.body)
        if n.count('EvictionCache(self.counts.copy(),') != 2:
            fail(path, pc, '_prepare_cache must build two EvictionCaches over copies of the counts')
        out.append('Definition fresh_counts_per_call : bool := true.')
        for fname, inner, memos in (('validate_graph', 'visitor', ['visited']), ('count_entries', 'visitor', ['visited']),
                                    ('hash_graph', 'visitor', ['hashes'])):
            fn = find_func(tree.body, fname)
            note(fname, 'engine/graph.py', fn, src)
            out.append(f'Definition trav_{fname} : trav_shape := {traversal_shape(path, fn, inner, memos)}.')
        # count_entries: what is accumulated.  Either the pinned per-path `entry_counts[node] += multiplier` or the
        # topological accumulation `entry_counts[n] += entry_counts[node]` seeded with `entry_counts[output] = multiplier`
        ce = find_func(tree.body, 'count_entries')
        n = norm(ce.body)
        if 'entry_counts[node]+=multiplier' in n and 'visited' not in n:
            rule = 'per-path'
        elif ('entry_counts[output]=multiplier' in n and 'fornodeinreversed(order):' in n
              and 'entry_counts[n]+=entry_counts[node]' in n and 'order.append(node)' in n):
            rule = 'path-count-dp'
        else:
            fail(path, ce, 'count_entries accumulation changed')
        out.append(f'Definition count_rule : string := {coq_str(rule)}.')
        # the placeholder that stands for the graph input in a static hash: a fresh object, equal to no constant
        ph = None
        for nd in tree.body:
            if isinstance(nd, ast.Assign) and len(nd.targets) == 1 and ast.unparse(nd.targets[0]) == '_PLACEHOLDER':
                ph = ast.unparse(nd.value).replace(' ', '')
                note('_PLACEHOLDER', 'engine/graph.py', nd, src)
        if ph != 'LeafHash(object())':
            fail(path, tree, f'_PLACEHOLDER must be LeafHash(object()), found {ph}')
        hg = find_func(tree.body, 'hash_graph')
        if 'hashes=dict.fromkeys(inputs,_PLACEHOLDER)' not in norm(hg.body) or 'node.edge.hash_graph(list(map(visitor,node.parents)))' not in norm(hg.body):
            fail(path, hg, 'hash_graph body changed')
        out.append('Definition placeholder_is_fresh_object : bool := true.\n')

    # --- compiler.find_dependencies, containers.detect_cycles, cache._detect_impure, TreeNode.to_edges
    if only == 'TravGen':
        path = os.path.join(C, 'engine/compiler.py')
        src, tree = parse(path)
        fn = find_func(tree.body, 'find_dependencies')
        note('find_dependencies', 'engine/compiler.py', fn, src)
        out.append(f'Definition trav_find_dependencies : trav_shape := {traversal_shape(path, fn, "visit", ["inputs"])}.')
        path = os.path.join(C, 'containers/base.py')
        src, tree = parse(path)
        fn = find_func(tree.body, 'detect_cycles')
        note('detect_cycles', 'containers/base.py', fn, src)
        out.append(f'Definition trav_detect_cycles : trav_shape := {traversal_shape(path, fn, "visit", ["visited"])}.')
        path = os.path.join(C, 'layers/cache.py')
        src, tree = parse(path)
        cl = find_class(tree, 'CacheLayer')
        fn = find_func(cl.body, '_detect_impure')
        note('CacheLayer._detect_impure', 'layers/cache.py', fn, src)
        out.append(f'Definition trav_detect_impure : trav_shape := {traversal_shape(path, fn, None, ["visited"])}.')
        n = norm(fn.body)
        want = ("ifvisitedisNone:\nvisited=set()\nifnode.is_leafornodeinvisited:\nreturn\nvisited.add(node)\n"
                "ifisinstance(node.edge,ImpureEdge):\nraiseValueError(f'Youaretryingtocachethefield\"{name}\",whichhasan`impure`dependency-\"{node.name}\"')\n"
                "forparentinnode.parents:\nCacheToStorage._detect_impure(parent,name,visited)")
        if n != want:
            fail(path, fn, '_detect_impure changed (expected: stop at leaves and visited nodes, raise on ImpureEdge, visit every parent)')
        out.append('Definition detect_impure_rule : string := "raise on ImpureEdge; visit every parent".')
        path = os.path.join(C, 'engine/base.py')
        src, tree = parse(path)
        tn = find_class(tree, 'TreeNode')
        fn = find_func(tn.body, 'to_edges')
        note('TreeNode.to_edges', 'engine/base.py', fn, src)
        out.append(f'Definition trav_to_edges : trav_shape := {traversal_shape(path, fn, "visit", ["visited"])}.\n')

    # --- MemoryCache
    if only == 'MemGen':
        path = os.path.join(C, 'cache/memory.py')
        src, tree = parse(path)
        mc = find_class(tree, 'MemoryCache')

        def locked(fname):
            fn = find_func(mc.body, fname)
            note(f'MemoryCache.{fname}', 'cache/memory.py', fn, src)
            ok = True
            # every use of self._cache must be lexically inside `with self._lock`
            inside = set()
            for s in ast.walk(fn):
                if isinstance(s, ast.With) and any(ast.unparse(i.context_expr) == 'self._lock' for i in s.items):
                    for x in ast.walk(s):
                        inside.add(id(x))
            for s in ast.walk(fn):
                if isinstance(s, ast.Attribute) and ast.unparse(s) == 'self._cache' and id(s) not in inside:
                    ok = False
            return fn, ok

        fn, l_get = locked('get')
        want_get = 'key=key.value\nwithself._lock:\nifkeyinself._cache:\nreturn(self._cache[key],True)\nreturn(None,False)'
        if norm(fn.body) != want_get:
            fail(path, fn, 'MemoryCache.get changed')
        fn, l_set = locked('set')
        if norm(fn.body) != 'key=key.value\nwithself._lock:\nself._cache[key]=value':
            fail(path, fn, 'MemoryCache.set changed')
        fn, l_clear = locked('clear')
        n = norm(fn.body)
        if n == 'withself._lock:\nself._cache={}':
            clear = 'ResetToDict'
        elif n == 'withself._lock:\nifself.sizeisnotNone:\nself._cache=lrucache(self.size)\nelse:\nself._cache={}':
            clear = 'ResetSameKind'
        else:
            fail(path, fn, 'MemoryCache.clear changed')
        init = find_func(mc.body, '__init__')
        note('MemoryCache.__init__', 'cache/memory.py', init, src)
        n = norm(init.body)
        if 'ifsizeisnotNone:\nself._cache=lrucache(size)\nelse:\nself._cache={}' not in n or 'self._lock=Lock()' not in n:
            fail(path, init, 'MemoryCache.__init__ changed')
        out.append('Inductive clear_kind := ResetSameKind | ResetToDict.')
        out.append(f'Definition mc_clear : clear_kind := {clear}.')
        out.append(f'Definition mc_locked_get : bool := {str(l_get).lower()}.')
        out.append(f'Definition mc_locked_set : bool := {str(l_set).lower()}.')
        out.append(f'Definition mc_locked_clear : bool := {str(l_clear).lower()}.')
        out.append('Definition mc_key_is : string := "key.value".\n')

    # --- MemoryCache pickling hook (C19, C08): a copy is a new, empty cache of the same size
    if only == 'MemPickleGen':
        path = os.path.join(C, 'cache/memory.py')
        src, tree = parse(path)
        mc = find_class(tree, 'MemoryCache')
        red = find_func(mc.body, '__reduce__')
        if red is None:
            fail(path, mc, 'MemoryCache.__reduce__ not found')
        note('MemoryCache.__reduce__', 'cache/memory.py', red, src)
        if norm(red.body) != 'return(self.__class__,(self.size,))':
            fail(path, red, 'MemoryCache.__reduce__ changed')
        for other in ('__getstate__', '__setstate__', '__reduce_ex__', '__getnewargs__', '__copy__', '__deepcopy__'):
            if find_func(mc.body, other) is not None:
                fail(path, mc, f'MemoryCache defines {other}')
        out.append('Definition mc_reduce_keeps : list string := ["size"].\n')

    # --- CachedColumn._get_shard
    if only == 'ShardGen':
        path = os.path.join(C, 'layers/columns.py')
        src, tree = parse(path)
        cc = find_class(tree, 'CachedColumn')
        fn = find_func(cc.body, '_get_shard')
        note('CachedColumn._get_shard', 'layers/columns.py', fn, src)
        want = ("keys=sorted(keys)\nifkeynotinkeys:\nraiseValueError(f'Thekey\"{key}\"isnotpresentamongthe{len(keys)}keyscachedbythislayer')\n"
                "size=self.shard_size\nifsizeisNone:\nreturn(keys,1,0)\nifisinstance(size,float):\nsize=ceil(size*len(keys))\n"
                "assertsize>0\nidx=keys.index(key)//size\ncount=ceil(len(keys)/size)\nstart=idx*size\nkeys=keys[start:start+size]\n"
                "assertkeyinkeys\nreturn(keys,count,idx)")
        if norm(fn.body) != want:
            fail(path, fn, '_get_shard changed')
        out.append(textwrap.dedent('''\
            (* layers/columns.py CachedColumn._get_shard, for an integer size (a float fraction is converted by
               size = ceil(frac * len(keys)) first); keys already sorted; pos = keys.index(key) *)
            Definition shard_idx (pos size : nat) : nat := pos / size.
            Definition shard_count (len size : nat) : nat := (len + size - 1) / size.
            Definition shard_keys {A} (keys : list A) (size idx : nat) : list A := firstn size (skipn (idx * size) keys).
            '''))

    # --- join.py ids_maker / id_maker
    if only == 'JoinGen':
        path = os.path.join(C, 'layers/join.py')
        src, tree = parse(path)
        fn = find_func(tree.body, 'ids_maker')
        note('ids_maker', 'layers/join.py', fn, src)
        want = ('defids(mappings):\ninner,left,right=mappings\nresult=set(inner)\nifhowin[JoinMode.left,JoinMode.outer]:\n'
                'result|=set(left)\nifhowin[JoinMode.right,JoinMode.outer]:\nresult|=set(right)\nreturntuple(sorted(result))\nreturnids')
        if norm(fn.body) != want:
            fail(path, fn, 'ids_maker changed')
        fn = find_func(tree.body, 'id_maker')
        note('id_maker', 'layers/join.py', fn, src)
        want = ("one_sided=howin([JoinMode.left,JoinMode.outer]ifindex==0else[JoinMode.right,JoinMode.outer])\n\n"
                "defkey(i,mappings):\ninner,*rest=mappings\nifiininner:\nreturninner[i][index]\nifone_sidedandiinrest[index]:\n"
                "returnrest[index][i]\nraiseKeyError(f'Key\"{i}\"notfound')\nreturnkey")
        if norm(fn.body) != want:
            fail(path, fn, 'id_maker changed')
        out.append(textwrap.dedent('''\
            (* layers/join.py ids_maker(how): which of the three key sets (inner, left-only, right-only) are united *)
            Inductive join_mode := JInner | JLeft | JRight | JOuter.
            Definition ids_uses_left (how : join_mode) : bool := match how with JLeft | JOuter => true | _ => false end.
            Definition ids_uses_right (how : join_mode) : bool := match how with JRight | JOuter => true | _ => false end.
            Definition id_maker_order : string := "inner first, then the own one-sided table if the mode selects this side, else KeyError".
            (* id_maker(index, how): a one-sided entry is served only in the modes that keep this side *)
            Definition id_serves_one_sided (left_side : bool) (how : join_mode) : bool :=
              if left_side then ids_uses_left how else ids_uses_right how.
            '''))

    # --- interface/edges.py Inverse._wrap: EVERY default-named argument of an @inverse function becomes a backward input (C10)
    if only == 'LoopGen':
        path = os.path.join(C, 'interface/edges.py')
        src, tree = parse(path)
        inv = find_class(tree, 'Inverse')
        fn = find_func(inv.body, '_wrap')
        note('Inverse._wrap', 'interface/edges.py', fn, src)
        want = ("ifisinstance(output,Default):\noutput=InverseOutput(output.name)\nifnotisinstance(output,InverseOutput):\n"
                "raiseFieldError(f\"Thefunctioncan'tbeinverted,becauseitsoutputisalreadyoftype{type(output)}\")\n"
                "inputs=[replace_annotation(lambdaa:InverseInput(a.name)ifisinstance(a,Default)elsea,x)forxininputs]\n"
                "yieldTypedEdge(edge,inputs,output)")
        if norm(fn.body) != want:
            fail(path, fn, 'Inverse._wrap changed')
        out.append('Definition inverse_wrap_rule : string := "default output -> InverseOutput; every default input -> InverseInput".\n')
        # containers/context.py: ChainContext.reverse runs the current context first, then the previous one
        path = os.path.join(C, 'containers/context.py')
        src, tree = parse(path)
        cc = find_class(tree, 'ChainContext')
        fn = find_func(cc.body, 'reverse')
        note('ChainContext.reverse', 'containers/context.py', fn, src)
        want = ("outputs,current_edges,current_optionals=self.current.reverse(outputs)\noutputs,previous_edges,previous_optionals=self.previous.reverse(outputs)\n"
                "return(outputs,list(current_edges)+list(previous_edges),current_optionals|previous_optionals)")
        if norm(fn.body) != want:
            fail(path, fn, 'ChainContext.reverse changed')
        out.append('Definition chain_reverse_order : string := "current first, then previous".\n')

    # --- cache/disk.py DiskCache and the store CacheToDisk.simple builds (C12)
    if only == 'DiskGen':
        path = os.path.join(C, 'cache/disk.py')
        src, tree = parse(path)
        dc = find_class(tree, 'DiskCache')
        wants = {'prepare': "raw=param.value\ncontext=self.cache.prepare(raw)\nreturn(context.digest,context)",
                 'get': "returnself.cache.read(context,error=False)",
                 'set': "self.cache.write(context,value,error=False,labels=self.labels)"}
        for name, want in wants.items():
            fn = find_func(dc.body, name)
            note('DiskCache.' + name, 'cache/disk.py', fn, src)
            if norm(fn.body) != want:
                fail(path, fn, f'DiskCache.{name} changed')
        out.append('(* cache/disk.py: a miss and an unwritable store are values, not exceptions; the entry key is the digest tarn makes of the node hash *)\n'
                   'Definition disk_get_raises_on_miss : bool := false.\nDefinition disk_set_raises : bool := false.\n')
        path = os.path.join(C, 'layers/cache.py')
        src, tree = parse(path)
        ctd = find_class(tree, 'CacheToDisk')
        fn = find_func(ctd.body, '__init__')
        note('CacheToDisk.__init__', 'layers/cache.py', fn, src)
        body = norm(fn.body)
        if "self.storage=DiskCache(PickleKeyStorage(index,storage,serializer,algorithm=storage.algorithm),labels=labels)" not in body:
            fail(path, fn, 'CacheToDisk.__init__ builds another store')
        fn = find_func(ctd.body, 'simple')
        note('CacheToDisk.simple', 'layers/cache.py', fn, src)
        body = norm(fn.body)
        for piece in ("init_storage(StorageConfig(hash='sha256',levels=[1,31]),index)\ninit_storage(StorageConfig(hash='sha256',levels=[1,31]),storage)",
                      "returncls(index,HashKeyStorage(DiskDict(storage)),serializer,names,labels=labels)"):
            if piece not in body:
                fail(path, fn, 'CacheToDisk.simple builds another store')
        out.append('(* layers/cache.py CacheToDisk.simple: two plain DiskDicts (no labels / usage / size trackers), blobs behind a HashKeyStorage that raises on a missing blob *)\n'
                   'Definition simple_store : string := "index: DiskDict sha256 [1,31]; storage: HashKeyStorage(DiskDict sha256 [1,31]), error=True".\n')

    # --- pickling hooks (C19): everything but MemoryCache is pickled by default (a structural copy)
    if only == 'PickleGen':
        hooks = []
        for dirpath, _, files in os.walk(C):
            for fn_ in sorted(files):
                if not fn_.endswith('.py'):
                    continue
                p_ = os.path.join(dirpath, fn_)
                src_, tree_ = parse(p_)
                for cls in ast.walk(tree_):
                    if isinstance(cls, ast.ClassDef):
                        for m in cls.body:
                            if isinstance(m, ast.FunctionDef) and m.name in ('__reduce__', '__reduce_ex__', '__getstate__', '__setstate__',
                                                                              '__getnewargs__', '__getnewargs_ex__', '__copy__', '__deepcopy__'):
                                hooks.append(f'{os.path.relpath(p_, C)}:{cls.name}.{m.name}')
        hooks.sort()
        if hooks != ['cache/memory.py:MemoryCache.__reduce__']:
            fail(os.path.join(C, 'engine/graph.py'), tree, f'custom pickling hooks changed: {hooks}')
        out.append('(* the only class with a pickling hook of its own; Graph, TreeNode, the edges and the other caches are copied structurally *)\n'
                   'Definition pickling_hooks : list string := ["cache/memory.py:MemoryCache.__reduce__"].\n')

    # --- library-owned callables stored in edges (C19): lambdas / nested defs passed to FunctionEdge(...) in connectome/layers
    if only == 'PickleGen':
        sites = []
        for rel in ('layers/group.py', 'layers/split.py', 'layers/filter.py', 'layers/join.py', 'layers/merge.py',
                    'layers/apply.py', 'layers/cache.py', 'layers/columns.py', 'layers/check_ids.py'):
            path = os.path.join(C, rel)
            src, tree = parse(path)
            toplevel = {n.name for n in tree.body if isinstance(n, (ast.FunctionDef, ast.ClassDef))}
            imported = set()
            for n in tree.body:
                if isinstance(n, (ast.Import, ast.ImportFrom)):
                    for a in n.names:
                        imported.add((a.asname or a.name).split('.')[0])
            local_makers = {}
            for n in tree.body:
                if isinstance(n, ast.FunctionDef):
                    inner_defs = [x.name for x in n.body if isinstance(x, ast.FunctionDef)]
                    rets = [ast.unparse(x.value) for x in n.body if isinstance(x, ast.Return) and x.value is not None]
                    if inner_defs and rets and rets[-1] in inner_defs:
                        local_makers[n.name] = 'Closure'
            for n in ast.walk(tree):
                if isinstance(n, ast.Call) and ast.unparse(n.func) == 'FunctionEdge' and n.args:
                    a = n.args[0]
                    if isinstance(a, ast.Lambda):
                        kind = 'Lambda'
                    elif isinstance(a, ast.Name) and (a.id in toplevel or a.id in imported):
                        kind = 'Global'
                    elif isinstance(a, ast.Call) and isinstance(a.func, ast.Name) and a.func.id in local_makers:
                        kind = 'Closure'
                    elif isinstance(a, ast.Call) and isinstance(a.func, ast.Name) and a.func.id == 'itemgetter':
                        kind = 'Global'
                    elif isinstance(a, (ast.Attribute, ast.Name)):
                        kind = 'User'      # self.predicate, self.by, func, ...: supplied by the user
                    else:
                        fail(path, n, 'callable argument of FunctionEdge')
                    sites.append((rel, n.lineno, kind, ast.unparse(a)[:40]))
                # classmethods returning cls(lambda ...)
                if isinstance(n, ast.Call) and ast.unparse(n.func) == 'cls' and n.args and isinstance(n.args[0], ast.Lambda):
                    sites.append((rel, n.lineno, 'Lambda', 'cls(' + ast.unparse(n.args[0])[:30] + ')'))
        out.append('Inductive callable_kind := Global | User | Lambda | Closure.')
        out.append('Definition lib_callables : list (string * nat * callable_kind) := [\n  ' + ';\n  '.join(
            f'({coq_str(r)}, {ln}, {k})' for r, ln, k, _ in sites) + '].')
        report['lib_callables'] = [{'file': r, 'line': ln, 'kind': k, 'expr': t} for r, ln, k, t in sites]
    return '\n'.join(out) + '\n'


# ----------------------------------------------------------------------------------------------------
# 5. layers/columns.py: CachedColumn (whole-body patterns; the progress bar is presentation and is stripped)
# ----------------------------------------------------------------------------------------------------
class _StripProgress(ast.NodeTransformer):
    def visit_Call(self, node):
        self.generic_visit(node)
        if isinstance(node.func, ast.Name) and node.func.id == 'tqdm' and node.args:
            return node.args[0]
        return node


def gen_columns(repo, report):
    path = os.path.join(repo, 'connectome', 'layers/columns.py')
    src, tree = parse(path)
    cc = find_class(tree, 'CachedColumn')
    cl = find_class(tree, 'CacheColumns')

    def note(kernel, node):
        report['kernels'].append({'kernel': kernel, 'file': 'layers/columns.py', 'line': node.lineno, 'sha256_16': sha(src, node)})

    want = {
        '__init__': 'super().__init__(arity=3)\nself.graph=graph\nself.disk=disk\nself.ram=ram\nself.verbose=verbose\nself.shard_size=shard_size',
        'compute_hash': 'value=(yield(Command.ParentHash,0))\nreturn(value,None)',
        '_hash_graph': 'returninputs[0]',
        'evaluate': "output=(yield(Command.CurrentHash,))\nvalue,exists=self.ram.raw_get(output)\nifexists:\nreturnvalue\n"
                    "key=(yield(Command.ParentValue,1))\nkeys=(yield(Command.ParentValue,2))\n"
                    "keys,shards_count,shard_idx=self._get_shard(key,keys)\nhashes,states=([],[])\nforkinkeys:\n"
                    "h,state=self.graph.get_hash(k)\nhashes.append(h)\nstates.append(state)\nifk==key:\nassertoutput==h,(output,h)\n"
                    "compound=ApplyHash(tuple,*hashes)\ndigest,context=self.disk.prepare(compound)\n"
                    "values,exists=self.disk.get(digest,context)\nifnotexists:\n"
                    "values=tuple([self.graph.get_value(*state)forstateinstates])\nself.disk.set(digest,values,context)\n"
                    "fork,h,valueinzip(keys,hashes,values):\nself.ram.raw_set(h,value)\nifk==key:\nresult=value\nreturnresult",
    }
    for name, w in want.items():
        fn = find_func(cc.body, name)
        if fn is None:
            fail(path, cc, f'CachedColumn.{name} not found')
        note(f'CachedColumn.{name}', fn)
        body = fn.body
        if name == 'evaluate':
            # the progress bar and its caption are presentation
            fn2 = _StripProgress().visit(ast.parse(ast.unparse(fn)).body[0])
            body = [st for st in ast.walk(fn2) if False] or fn2.body

            def drop_suffix(stmts):
                out = []
                for st in stmts:
                    if isinstance(st, ast.Assign) and len(st.targets) == 1 and isinstance(st.targets[0], ast.Name) and st.targets[0].id == 'suffix':
                        continue
                    for fld in ('body', 'orelse'):
                        if hasattr(st, fld) and isinstance(getattr(st, fld), list):
                            setattr(st, fld, drop_suffix(getattr(st, fld)))
                    out.append(st)
                return out
            body = drop_suffix(body)
        if norm(body) != w:
            fail(path, fn, f'CachedColumn.{name} changed')
    # the stores of the layer and what each column is built from
    init = find_func(cl.body, '__init__')
    note('CacheColumns.__init__', init)
    ni = norm(init.body)
    if 'self.ram=MemoryCache(None)' not in ni or \
            'self.disk=DiskCache(PickleKeyStorage(index,storage,serializer,algorithm=storage.algorithm),labels=labels)' not in ni:
        fail(path, init, 'the stores of CacheColumns changed')
    pc = find_func(cl.body, '_prepare_container')
    note('CacheColumns._prepare_container', pc)
    npc = norm(pc.body)
    for piece in ('graph=copy.compile().compile(name)',
                  'edges.append(CachedColumn(self.disk,self.ram,graph,self.verbose,self.shard_size).bind([inp,key,keys],out))',
                  "property_name='ids'", 'key=Node(copy.inputs[0].name,details)', 'keys=Node(property_name,details)'):
        if piece not in npc:
            fail(path, pc, f'CacheColumns._prepare_container lost `{piece}`')
    return COLUMNS_GEN


# the Gallina text of the recognised body (emitted only when every pattern above matched)
COLUMNS_GEN = open(os.path.join(os.path.dirname(os.path.abspath(__file__)), 'templates', 'ColumnsGen.v')).read()



# ----------------------------------------------------------------------------------------------------
# 6. the evaluate() bodies of the dataset-wide edges (whole-body patterns, progress bars stripped)
# ----------------------------------------------------------------------------------------------------
REL_WANT = [
    ('layers/filter.py', 'FilterEdge', '_evaluate', 'keys,=inputs\nreturntuple([keyforkeyinkeysifself.graph(key)])'),
    ('layers/filter.py', None, '_among', 'returnidinids'),
    ('layers/filter.py', None, '_not_among', 'returnidnotinids'),
    ('layers/check_ids.py', 'CheckIdsEdge', '_evaluate', "id_,ids=inputs\nifid_inids:\nreturnid_\nraiseKeyError(f'{id_}isnotinids')"),
    ('layers/group.py', 'GroupMapping', 'evaluate',
     'keys=(yield(Command.ParentValue,0))\nmapping=defaultdict(set)\nforkeyinkeys:\nnew=self.graph(key)\n'
     'assertkeynotinmapping[new],(key,mapping[new])\nmapping[new].add(key)\nreturndict(mapping)'),
    ('layers/group.py', 'GroupEdge', '_evaluate',
     "new_key,mapping=inputs\nifnew_keynotinmapping:\nraiseKeyError(f'Thekey{new_key}isnotfound')\n"
     "return{old_key:self.graph(old_key)forold_keyinsorted(mapping[new_key])}"),
    ('layers/group.py', None, '_sorted_keys', 'returntuple(sorted(mapping))'),
    ('layers/join.py', 'JoinMapping', 'evaluate',
     'left_keys,right_keys=(yield(Command.Await,(Command.ParentValue,0),(Command.ParentValue,1)))\n'
     'precomputed_left,precomputed_right=(defaultdict(list),defaultdict(list))\nreverse_left,reverse_right=({},{})\n'
     'foriinleft_keys:\nkey=reverse_func(self.to_key,self.left(i),reverse_left)\nprecomputed_left[key].append(i)\n'
     'foriinright_keys:\nkey=reverse_func(self.to_key,self.right(i),reverse_right)\nprecomputed_right[key].append(i)\n'
     'left,right=(set(precomputed_left),set(precomputed_right))\ncommon=left&right\nmapping={}\nforkeyincommon:\n'
     'fori,jinitertools.product(precomputed_left[key],precomputed_right[key]):\nmapping[key]=(i,j)\n'
     'return(mapping,slice_dict(precomputed_left,left-common),slice_dict(precomputed_right,right-common))'),
    ('layers/join.py', None, 'reverse_func',
     "value=func(arg)\nifvalueinmapping:\nraiseValueError(f'Theprovidedkeyfunctionisnotreversible:value{value}alreadypresentfor{mapping[value]}')\n"
     "mapping[value]=arg\nreturnvalue"),
    ('layers/join.py', None, 'slice_dict',
     'forkinkeys:\nvs=d[k]\niflen(vs)>1:\nraiseValueError(f\'Multipleids{tuple(vs)}weremappedtothesamekey"{k}"\')\nyield(k,vs[0])'),
    ('layers/split.py', 'SplitMapping', 'evaluate',
     'keys=(yield(Command.ParentValue,0))\nmapping={}\nforkeyinkeys:\nfornew,partinself.graph(key):\nassertnewnotinmapping,new\n'
     'mapping[new]=(key,part)\nreturnmapping'),
]


REL_FILES = {'MergeGen': (), 'FilterGen': ('layers/filter.py', 'layers/check_ids.py'), 'JoinMapGen': ('layers/join.py',),
             'GroupGen': ('layers/group.py',), 'SplitGen': ('layers/split.py',)}


def gen_relational(repo, report, only):
    """one generated file per dataset-wide layer kind (REL_FILES), so that a body that lost its shape fails the file of its own layer only"""
    cache = {}
    for rel, cls, fname, want in REL_WANT:
        if rel not in REL_FILES[only]:
            continue
        path = os.path.join(repo, 'connectome', rel)
        if path not in cache:
            cache[path] = parse(path)
        src, tree = cache[path]
        scope = tree.body
        if cls is not None:
            c = find_class(tree, cls)
            if c is None:
                fail(path, tree, f'class {cls} not found')
            scope = c.body
        fn = find_func(scope, fname)
        if fn is None:
            fail(path, tree, f'{cls + "." if cls else ""}{fname} not found')
        report['kernels'].append({'kernel': f'{cls + "." if cls else ""}{fname}', 'file': rel, 'line': fn.lineno, 'sha256_16': sha(src, fn)})
        stripped = _StripProgress().visit(ast.parse(ast.unparse(fn)).body[0])
        if norm(stripped.body) != want:
            fail(path, fn, f'{cls + "." if cls else ""}{fname} changed')
    if only == 'MergeGen':
        # Merge.__init__: the id table
        path = os.path.join(repo, 'connectome', 'layers/merge.py')
        src, tree = parse(path)
        init = find_func(find_class(tree, 'Merge').body, '__init__')
        report['kernels'].append({'kernel': 'Merge.__init__', 'file': 'layers/merge.py', 'line': init.lineno, 'sha256_16': sha(src, init)})
        ni = norm(init.body)
        piece = ('id_to_dataset={}\nforindex,datasetinenumerate(layers):\nkeys=getattr(dataset,ids_name)\nintersection=set(keys)&set(id_to_dataset)\n'
                 "ifintersection:\nraiseRuntimeError(f'Ids{intersection}areduplicatedinmergeddatasets.')\nid_to_dataset.update({i:indexforiinkeys})")
        if piece not in ni:
            fail(path, init, 'the id table of Merge.__init__ changed')
    if only == 'FilterGen':
        # Filter.keep / drop: what the predicate closes over
        path = os.path.join(repo, 'connectome', 'layers/filter.py')
        src, tree = parse(path)
        fl = find_class(tree, 'Filter')
        for name, pred in (('keep', '_among'), ('drop', '_not_among')):
            fn = find_func(fl.body, name)
            report['kernels'].append({'kernel': f'Filter.{name}', 'file': 'layers/filter.py', 'line': fn.lineno, 'sha256_16': sha(src, fn)})
            nb = norm(fn.body)
            if 'ids=tuple(sorted(set(ids)))' not in nb or f'returncls(partial({pred},ids),verbose=verbose)' not in nb:
                fail(path, fn, f'Filter.{name} changed')
    return open(os.path.join(os.path.dirname(os.path.abspath(__file__)), 'templates', only + '.v')).read()


# ----------------------------------------------------------------------------------------------------
# 7. fingerprints of the functions that hand-written parts of the model mirror line by line: the model is compared with them by the
#    correspondence checks; the fingerprint (sha256 of the normalised body, docstrings and comments dropped) is pinned by a theorem of
#    every property that relies on that part, so that an edit of the function re-opens those properties even when no sampled case differs
# ----------------------------------------------------------------------------------------------------
SHAPE_FILES = {
    'VmGen': [('engine/vm.py', None, 'execute')],
    'BagGen': [('containers/base.py', None, 'connect_bags'), ('containers/base.py', None, 'normalize_bag'), ('containers/base.py', 'EdgesBag', 'freeze'),
               ('containers/base.py', 'EdgesBag', '__init__')],
    'OptGen': [('containers/reversible.py', None, 'detect_optionals'), ('containers/reversible.py', 'ReversibleContainer', '__init__'),
               ('engine/compiler.py', 'GraphCompiler', '_validate_optionals'), ('engine/compiler.py', 'GraphCompiler', 'compile'),
               ('engine/compiler.py', 'GraphCompiler', '_compile')],
    'CtxGen': [('containers/context.py', 'BagContext', 'reverse'), ('containers/context.py', 'ChainContext', 'reverse'),
               ('containers/context.py', 'IdentityContext', 'reverse'), ('containers/base.py', 'EdgesBag', 'loopback'),
               ('containers/base.py', None, 'function_to_bag')],
    # the glue around the modelled core: whole classes ('*': every method but __repr__) and module-level functions of the files a property is anchored in
    'GlueCacheGen': [('layers/cache.py', 'CacheToStorage', '*'), ('layers/cache.py', 'CacheToRam', '*'), ('layers/cache.py', 'CacheToDisk', '*'),
                     ('layers/cache.py', None, '_normalize_disk_arguments'), ('layers/cache.py', None, '_resolve_serializer'),
                     ('layers/dynamic.py', 'DynamicConnectLayer', '*'), ('cache/memory.py', 'MemoryCache', '*'), ('cache/disk.py', 'DiskCache', '*')],
    'GlueChainGen': [('layers/base.py', 'CallableLayer', '*'), ('layers/base.py', 'Instance', '*'), ('layers/base.py', 'Chain', '*'), ('layers/base.py', 'LazyChain', '*'),
                     ('layers/chain.py', None, 'connect')],
    'GlueMergeGen': [('layers/merge.py', 'Merge', '*')],
    'GlueFilterGen': [('layers/filter.py', 'Filter', '*'), ('layers/check_ids.py', 'CheckIds', '*')],
    'GlueJoinGen': [('layers/join.py', 'Join', '*'), ('layers/join.py', 'JoinContainer', '*'), ('layers/join.py', 'SwitchBranch', '*'), ('layers/join.py', 'SwitchMissing', '*'),
                    ('layers/join.py', None, '_maybe_to_hash_id'), ('layers/join.py', None, 'to_hash_id'), ('layers/join.py', None, '_chain_edges')],
    'GlueGroupGen': [('layers/group.py', 'GroupBy', '*'), ('layers/group.py', None, 'to_key')],
    'GlueSplitGen': [('layers/split.py', 'SplitBase', '*'), ('layers/split.py', None, 'chain_edges'), ('interface/split.py', 'SplitFactory', '*')],
    'GlueFactoryGen': [('interface/factory.py', 'GraphFactory', '*'), ('interface/factory.py', 'SourceFactory', '*'), ('interface/factory.py', 'TransformFactory', '*'),
                       ('interface/factory.py', None, 'add_from_mixins'), ('interface/factory.py', None, 'is_detectable'), ('interface/factory.py', None, 'items_to_container'),
                       ('interface/edges.py', 'FunctionBase', '*'), ('interface/edges.py', 'Function', '*'), ('interface/edges.py', 'FunctionWrapper', '*'),
                       ('interface/edges.py', 'Inverse', '*'), ('interface/edges.py', 'Positional', '*'), ('interface/edges.py', 'Impure', '*'),
                       ('interface/metaclasses.py', 'APIMeta', '*'), ('interface/complex_edges.py', 'HashByValue', '*'), ('interface/complex_edges.py', 'CombinedHashByValue', '*'),
                       ('interface/complex_edges.py', None, 'hash_by_value'), ('interface/nodes.py', 'NodeStorage', '*'), ('interface/utils.py', None, 'replace_annotation')],
    'GlueHashGen': [('engine/node_hash.py', 'NodeHash', '*'), ('engine/node_hash.py', 'LeafHash', '*'), ('engine/node_hash.py', 'ApplyHash', '*'),
                    ('engine/node_hash.py', 'GraphHash', '*'), ('engine/node_hash.py', 'CustomHash', '*'), ('engine/edges.py', 'FunctionEdge', '*'),
                    ('engine/edges.py', 'ConstantEdge', '*'), ('engine/edges.py', 'ComputableHashBase', '*'),
                    ('interface/external.py', 'External', '*'), ('interface/external.py', 'SimpleHash', '*'), ('interface/external.py', 'SimpleHashEdge', '*'),
                    ('interface/external.py', None, 'marker_getter')],
    'GlueGraphGen': [('engine/graph.py', 'Graph', '*'), ('engine/graph.py', None, 'evaluate'), ('engine/graph.py', None, 'compute_hash'),
                     ('engine/compiler.py', 'GraphCompiler', '*'), ('engine/compiler.py', None, 'find_dependencies'), ('engine/base.py', 'TreeNode', '*')],
    'GlueColumnsGen': [('layers/columns.py', 'CacheColumns', '*')],
}


def gen_shapes(repo, report, only):
    out = [f'(* GENERATED by tools/translate.py ({only}): fingerprints of functions the hand-written model mirrors. Do not edit. *)',
           'From Connectome Require Import Values.', '']
    cache = {}
    for rel, cls, fname in SHAPE_FILES[only]:
        path = os.path.join(repo, 'connectome', rel)
        if path not in cache:
            cache[path] = parse(path)
        src, tree = cache[path]
        scope = tree.body
        if cls is not None:
            c = find_class(tree, cls)
            if c is None:
                fail(path, tree, f'class {cls} not found')
            scope = c.body
        if fname == '*':
            # the whole class: bases, class-level assignments and every method but __repr__ (presentation)
            c2 = _StripProgress().visit(ast.parse(ast.unparse(c)).body[0])
            c2.body = [x for x in strip_doc(c2.body) if not (isinstance(x, ast.FunctionDef) and x.name == '__repr__')]
            for x in c2.body:
                if isinstance(x, ast.FunctionDef):
                    x.body = strip_doc(x.body) or [ast.Pass()]
            h = hashlib.sha256(ast.unparse(c2).replace(' ', '').encode()).hexdigest()[:16]
            report['kernels'].append({'kernel': cls, 'file': rel, 'line': c.lineno, 'sha256_16': sha(src, c)})
            out.append(f'(* {rel}:{c.lineno} class {cls} *)')
            out.append(f'Definition shape_class_{cls} : string := "{h}".')
            continue
        fn = find_func(scope, fname)
        if fn is None:
            fail(path, tree, f'{cls + "." if cls else ""}{fname} not found')
        stripped = _StripProgress().visit(ast.parse(ast.unparse(fn)).body[0])
        h = hashlib.sha256((ast.unparse(stripped.args) + '|' + norm(stripped.body)).encode()).hexdigest()[:16]
        name = f'{cls + "." if cls else ""}{fname}'
        report['kernels'].append({'kernel': name, 'file': rel, 'line': fn.lineno, 'sha256_16': sha(src, fn)})
        ident = 'shape_' + (cls + '_' if cls else '') + ('init' if fname == '__init__' else ('priv_' + fname.lstrip('_') if fname.startswith('_') else fname))
        out.append(f'(* {rel}:{fn.lineno} {name} *)')
        out.append(f'Definition {ident} : string := "{h}".')
    return '\n'.join(out) + '\n'


def write_if_changed(path, text):
    if os.path.exists(path) and open(path).read() == text:
        return False
    with open(path, 'w') as f:
        f.write(text)
    return True


def main():
    repo, outdir = '/repo', '/verif/coq/Gen'
    a = sys.argv[1:]
    while a:
        if a[0] == '--repo':
            repo = a[1]; a = a[2:]
        elif a[0] == '--out':
            outdir = a[1]; a = a[2:]
        else:
            sys.exit('usage: translate.py [--repo DIR] [--out DIR]')
    os.makedirs(outdir, exist_ok=True)
    report = {'kernels': [], 'failures': [], 'files': {}}
    ok = True
    for fname, fn in (('EdgesGen.v', gen_edges), ('NodeHashGen.v', gen_nodehash), ('AntiSetGen.v', gen_antiset),
                      ('ColumnsGen.v', gen_columns)) + tuple(
            (f'{m}.v', (lambda repo_, report_, m_=m: gen_relational(repo_, report_, m_))) for m in REL_FILES) + tuple(
            (f'{m}.v', (lambda repo_, report_, m_=m: gen_shapes(repo_, report_, m_))) for m in SHAPE_FILES) + tuple(
            (f'{m}.v', (lambda repo_, report_, m_=m: gen_misc(repo_, report_, m_))) for m in MISC_FILES):
        n0 = len(report['kernels'])
        try:
            text = fn(repo, report)
            for kk in report['kernels'][n0:]:
                kk['gen'] = fname
            changed = write_if_changed(os.path.join(outdir, fname), text)
            report['files'][fname] = {'changed': changed, 'sha256_16': hashlib.sha256(text.encode()).hexdigest()[:16]}
        except Exception as e:      # Unsupported, or the source no longer has the shape a pattern walks through
            if not isinstance(e, Unsupported):
                e = Unsupported(f'{type(e).__name__} inside the translator (the source lost a definition it reads): {e}')
            ok = False
            report['failures'].append({'file': fname, 'error': str(e)})
            # leave a file that does not compile, so no stale translation can be used by accident
            write_if_changed(os.path.join(outdir, fname),
                             f'(* TRANSLATION FAILED: {str(e).replace("*", "#")} *)\nDefinition translation_failed : False := I.\n')
            print(f'TRANSLATION FAILED [{fname}]: {e}', file=sys.stderr)
    with open(os.path.join(outdir, 'translate_report.json'), 'w') as f:
        json.dump(report, f, indent=1)
    sys.exit(0 if ok else 2)


if __name__ == '__main__':
    main()
