"""Driver-side helpers (run by bin/check under the system python3; no third-party imports).

 * translate -> make -> theorem / assumption collection
 * running the implementation harness under /venv/bin/python with PYTHONPATH=/repo
 * JSON values -> Gallina literals, case shards, parallel coqc, parsing of the one result line per shard
 * evidence files, VIOLATION / KNOWN-FINDING lines, replays
"""
import fcntl
import hashlib
import json
import os
import re
import shutil
import subprocess
import sys
import time

VERIF = os.path.dirname(os.path.dirname(os.path.abspath(__file__)))
REPO = os.environ.get('VERIF_REPO', '/repo')
COQ = os.path.join(VERIF, 'coq')
PY = '/venv/bin/python'
QFLAGS = ['-Q', 'Model', 'Connectome', '-Q', 'Gen', 'Connectome', '-Q', 'Proofs', 'Connectome',
          '-Q', 'Props', 'Connectome', '-Q', 'Run', 'Connectome', '-Q', 'Search', 'Connectome']
NPROC = int(os.environ.get('VERIF_JOBS', '16'))


def sh(cmd, timeout, cwd=None, env=None, inp=None):
    """run a command under a wall-clock limit; returns (rc, stdout+stderr). rc 124 on timeout."""
    try:
        p = subprocess.run(cmd, cwd=cwd, env=env, input=inp, stdout=subprocess.PIPE, stderr=subprocess.STDOUT,
                           timeout=timeout, text=True)
        return p.returncode, p.stdout
    except subprocess.TimeoutExpired as e:
        out = e.stdout if isinstance(e.stdout, str) else (e.stdout or b'').decode(errors='replace')
        return 124, out + f'\n[timeout after {timeout}s]'


class BuildLock:
    def __enter__(self):
        self.f = open(os.path.join(VERIF, '.build.lock'), 'w')
        fcntl.flock(self.f, fcntl.LOCK_EX)
        return self

    def __exit__(self, *a):
        fcntl.flock(self.f, fcntl.LOCK_UN)
        self.f.close()


# ---------------------------------------------------------------------------------------------- build
def translate():
    rc, out = sh(['python3', os.path.join(VERIF, 'tools/translate.py'), '--repo', REPO, '--out', os.path.join(COQ, 'Gen')], 120)
    rep = {}
    try:
        rep = json.load(open(os.path.join(COQ, 'Gen/translate_report.json')))
    except Exception:
        pass
    return rc == 0, out, rep


def install_reference_gen(only=None):
    """copy the reference translation over Gen/ (all files, or the named ones)"""
    ref, gen = os.path.join(COQ, 'GenRef'), os.path.join(COQ, 'Gen')
    for f in os.listdir(ref):
        if f.endswith('.v') and (only is None or f in only):
            text = open(os.path.join(ref, f)).read()
            if not os.path.exists(os.path.join(gen, f)) or open(os.path.join(gen, f)).read() != text:
                open(os.path.join(gen, f), 'w').write(text)


_GEN_DEPS = {}


def gen_deps(pid):
    """the generated files (names like 'EdgesGen.v') that Props/<pid>.v transitively requires; computed by coqdep over the reference
    translation (coq/GenRef), so that a file that failed to translate cannot hide what lies below it"""
    if not _GEN_DEPS:
        src = []
        for d in ('Model', 'GenRef', 'Proofs', 'Props'):
            src += sorted(os.path.join(d, f) for f in os.listdir(os.path.join(COQ, d)) if f.endswith('.v'))
        rc, out = sh(['coqdep', '-Q', 'Model', 'Connectome', '-Q', 'GenRef', 'Connectome', '-Q', 'Proofs', 'Connectome', '-Q', 'Props', 'Connectome'] + src,
                     120, cwd=COQ)
        graph = {}
        for line in out.splitlines():
            m = re.match(r'(\S+)\.vo .*?: (.*)', line)
            if m:
                graph[m.group(1)] = [x[:-3] for x in m.group(2).split() if x.endswith('.vo')]
        _GEN_DEPS['graph'] = graph
    graph = _GEN_DEPS['graph']
    seen, todo = set(), [f'Props/{pid}']
    while todo:
        t = todo.pop()
        for d in graph.get(t, []):
            if d not in seen:
                seen.add(d)
                todo.append(d)
    return {os.path.basename(x) + '.v' for x in seen if x.startswith('GenRef/')}


def coq_sources():
    src = []
    for d in ('Model', 'Gen', 'Proofs', 'Props'):
        p = os.path.join(COQ, d)
        src += sorted(os.path.join(d, f) for f in os.listdir(p) if f.endswith('.v'))
    return src


def ensure_makefile():
    src = coq_sources()
    stamp = os.path.join(COQ, '.sources')
    text = '\n'.join(src)
    if not os.path.exists(os.path.join(COQ, 'Makefile')) or not os.path.exists(stamp) or open(stamp).read() != text:
        rc, out = sh(['coq_makefile', '-f', '_CoqProject', '-o', 'Makefile'] + src, 120, cwd=COQ)
        if rc != 0:
            raise RuntimeError('coq_makefile failed:\n' + out)
        open(stamp, 'w').write(text)


def make(targets, timeout=1500):
    ensure_makefile()
    rc, out = sh(['make', f'-j{NPROC}'] + targets, timeout, cwd=COQ)
    return rc == 0, out


def first_error(out):
    """the first `File ... Error:` block of a make / coqc log"""
    m = re.search(r'File "([^"]+)", line (\d+), characters [\d-]+:\s*\nError:((?:.|\n)*?)(?:\n\n|\nmake|\Z)', out)
    if m:
        return {'file': m.group(1), 'line': int(m.group(2)), 'error': ' '.join(m.group(3).split())[:600]}
    return {'file': None, 'line': None, 'error': out[-600:]}


def theorems_of(pid):
    """(theorem name, statement) pairs of Props/<pid>.v"""
    text = open(os.path.join(COQ, 'Props', pid + '.v')).read()
    return [(m.group(2), ' '.join(m.group(3).split()))
            for m in re.finditer(r'^(Theorem|Corollary|Example)\s+(\w+)\s*((?:.|\n)*?)\.\s*\nProof', text, re.M)]


def assumptions_of(pid, timeout=600):
    """re-check Props/<pid>.v alone and collect the `Print Assumptions` output per theorem"""
    d = os.path.join(COQ, 'Run', f'_assume_{pid}')
    os.makedirs(d, exist_ok=True)
    tmp = os.path.join(d, pid + '.vo')
    rc, out = sh(['coqc'] + QFLAGS + ['-o', tmp, os.path.join('Props', pid + '.v')], timeout, cwd=COQ)
    shutil.rmtree(d, ignore_errors=True)
    blocks = []
    cur = None
    for line in out.splitlines():
        if line.startswith('Closed under the global context'):
            blocks.append('Closed under the global context')
            cur = None
        elif line.startswith('Axioms:'):
            cur = []
            blocks.append(cur)
        elif cur is not None and line.strip():
            cur.append(line.strip())
    blocks = [b if isinstance(b, str) else 'Axioms: ' + ' '.join(b) for b in blocks]
    return rc == 0, out, blocks


# ---------------------------------------------------------------------------------------------- impl
def run_impl(script, args, timeout, hashseed=0, extra_env=None):
    env = dict(os.environ)
    env.update({'PYTHONPATH': REPO, 'PYTHONHASHSEED': str(hashseed), 'VERIF_REPO': REPO, 'PYTHONDONTWRITEBYTECODE': '1',
                'CONNECTOME_VERIF': '1'})
    if extra_env:
        env.update(extra_env)
    rc, out = sh([PY, os.path.join(VERIF, 'tools/pyharness', script)] + args, timeout, env=env, cwd=VERIF)
    out = '\n'.join(l for l in out.splitlines() if 'WARNING' not in l or 'conda' not in l.lower())
    return rc, out


# ---------------------------------------------------------------------------------------------- Gallina literals
def cstr(s):
    return '"' + s.replace('"', '""') + '"'


def clist(xs):
    return '[' + '; '.join(xs) + ']'


def cval(j):
    if j is None:
        return 'VNone'
    (k, v), = j.items()
    if k == 's':
        return f'VStr {cstr(v)}'
    if k == 'i':
        return f'VInt ({v})%Z'
    if k == 'f':
        return f'VFlt ({v})%Z'
    if k == 'b':
        return f'VBool {"true" if v else "false"}'
    if k == 'n':
        return f'VNat {v}'
    if k == 't':
        return 'VTuple ' + clist([cval(x) for x in v])
    if k == 'd':
        return 'VDict ' + clist([f'({cval(a)}, {cval(b)})' for a, b in v])
    if k == 'fn':
        return f'VFun {cstr(v)}'
    if k == 'a':
        return f'VApp {cstr(v[0])} ' + clist([cval(x) for x in v[1]]) + ' ' + clist([f'({cstr(a)}, {cval(b)})' for a, b in v[2]])
    raise ValueError(j)


def cedge(d):
    k = d['k']
    if k == 'func':
        return f'EFunc {cstr(d["f"])} {d["ar"]} ' + clist([cstr(x) for x in d['kw']]) + ' ' + clist([str(i) for i in d['sil']])
    if k == 'const':
        return f'EConst ({cval(d["v"])})'
    if k == 'ident':
        return 'EIdent'
    if k == 'product':
        return f'EProduct {d["n"]}'
    if k == 'cache':
        return f'ECache {d["c"]}'
    if k == 'barrier':
        return 'EBarrier'
    if k == 'byvalue':
        return f'EByValue ({cedge(d["inner"])})'
    if k == 'impure':
        return f'EImpure ({cedge(d["inner"])})'
    if k == 'switch':
        return 'ESwitch ' + clist([f'({cval(key)}, {i})' for key, i in d['table']]) + f' {d["n"]}'
    if k == 'checkids':
        return 'ECheckIds'
    raise ValueError(k)


def cgraph(nodes):
    return clist(['Leaf' if d['k'] == 'leaf' else f'Inner ({cedge(d)}) ' + clist([str(p) for p in d['ps']]) for d in nodes])


def chash(j):
    """None: not recorded; {'exc': ..}: get_hash raised; otherwise a hash term"""
    if j is None:
        return 'None'
    if 'exc' in j:
        return 'Some None'
    return 'Some (Some (' + chash1(j) + '))'


def chash1(j):
    (k, v), = j.items()
    if k == 'L':
        return f'HLeaf ({cval(v)})'
    if k == 'A':
        return f'HApply {cstr(v[0])} ' + clist([chash1(x) for x in v[1]]) + ' ' + clist([cstr(x) for x in v[2]])
    if k == 'G':
        return f'HGraph ({chash1(v)})'
    if k == 'C':
        return f'HCustom {cstr(v[0])} ' + clist([chash1(x) for x in v[1]])
    if k == 'P':
        return 'HPlaceholder'
    raise ValueError(j)


def cxres(r):
    return f'XVal ({cval(r["val"])})' if 'val' in r else f'XExc {cstr(r["exc"])}'


def ccall(c):
    return f'({cstr(c[0])}, ' + clist([cval(x) for x in c[1]]) + ', ' + clist([f'({cstr(a)}, {cval(b)})' for a, b in c[2]]) + ')'


def ctev(e):
    w = {'H': 'WH', 'C': 'WC'}
    if e[0] == 'has':
        return f'THas {w[e[1]]} {e[2]} {"true" if e[3] else "false"}'
    if e[0] == 'store':
        return f'TStore {w[e[1]]} {e[2]}'
    if e[0] == 'evict':
        return f'TEvict {w[e[1]]} {e[2]} {e[3]}'
    if e[0] == 'call':
        return f'TCall {cstr(e[1])}'
    raise ValueError(e)


# ---------------------------------------------------------------------------------------------- shards
SHARD_HEADER = 'From Connectome Require Import {imports}.\nFrom Coq Require Import ZArith.\n'


def write_shards(pid, name, imports, ctype, check, literals, per=250):
    """write Run/<pid>/<name>_<k>.v; returns the list of (path, first index, count)"""
    d = os.path.join(COQ, 'Run', pid)
    os.makedirs(d, exist_ok=True)
    for f in os.listdir(d):
        if f.startswith(name + '_'):
            os.remove(os.path.join(d, f))
    shards = []
    for k in range(0, len(literals), per):
        chunk = literals[k:k + per]
        path = os.path.join(d, f'{name}_{k // per}.v')
        with open(path, 'w') as f:
            f.write(SHARD_HEADER.format(imports=' '.join(imports)))
            f.write(f'Definition cases : list ({ctype}) := [\n')
            f.write(';\n'.join(chunk))
            f.write('\n].\n')
            f.write(f'Eval vm_compute in (List.length cases, bad_cases ({check}) cases).\n')
        shards.append((path, k, len(chunk)))
    return shards


def run_shards(shards, timeout=900):
    """compile all shards in parallel; returns (n_cases_checked, [(global index, code)], errors)"""
    procs = []
    results, errors, total = [], [], 0
    env = dict(os.environ)
    queue = list(shards)
    running = []
    t_end = time.time() + timeout

    def start(sh_):
        path, first, cnt = sh_
        p = subprocess.Popen(['coqc'] + QFLAGS + [os.path.relpath(path, COQ)], cwd=COQ, stdout=subprocess.PIPE,
                             stderr=subprocess.STDOUT, text=True, env=env)
        return (p, sh_)

    while queue or running:
        while queue and len(running) < NPROC:
            running.append(start(queue.pop(0)))
        still = []
        for p, sh_ in running:
            if p.poll() is None:
                if time.time() > t_end:
                    p.kill()
                    errors.append(f'{sh_[0]}: timeout')
                else:
                    still.append((p, sh_))
                continue
            out = p.stdout.read()
            path, first, cnt = sh_
            m = re.search(r'=\s*\((\d+),\s*(\[(?:.|\n)*?\])\)\s*\n?\s*:', out)
            if p.returncode != 0 or not m:
                errors.append(f'{path}: ' + first_error(out)['error'])
                continue
            n = int(m.group(1))
            total += n
            if n != cnt:
                errors.append(f'{path}: expected {cnt} cases, Coq saw {n}')
            for a, b in re.findall(r'\((\d+),\s*(\d+)\)', m.group(2)):
                results.append((first + int(a), int(b)))
        running = still
        if running:
            time.sleep(0.05)
    for path, _, _ in shards:
        base = path[:-2]
        for ext in ('.vo', '.vos', '.vok', '.glob'):
            try:
                os.remove(base + ext)
            except OSError:
                pass
        try:
            os.remove(os.path.join(os.path.dirname(path), '.' + os.path.basename(base) + '.aux'))
        except OSError:
            pass
    return total, sorted(results), errors


# ---------------------------------------------------------------------------------------------- reporting
def case_hash(obj):
    return hashlib.sha256(json.dumps(obj, sort_keys=True).encode()).hexdigest()[:16]


def load_known():
    p = os.path.join(VERIF, 'known_findings.json')
    if not os.path.exists(p):
        return {'findings': [], 'fixed': []}
    return json.load(open(p))


def write_replay(pid, n, obj):
    d = os.path.join(VERIF, 'replays')
    os.makedirs(d, exist_ok=True)
    p = os.path.join(d, f'{pid}-{n}.json')
    with open(p, 'w') as f:
        json.dump(obj, f, indent=1)
    return p


def write_evidence(pid, ev):
    d = os.path.join(VERIF, 'evidence')
    os.makedirs(d, exist_ok=True)
    with open(os.path.join(d, pid + '.json'), 'w') as f:
        json.dump(ev, f, indent=1)
