#!/bin/sh
# usage: tools/run_all.sh [tier] [seed...]   -- every check on the current tree, one line per check
tier="${1:-quick}"; shift
[ $# -eq 0 ] && set -- 0
cd /verif || exit 2
for seed in "$@"; do
  for id in C01 C02 C03 C04 C05 C06 C07 C08 C09 C10 C11 C12 C13 C14 C15 C16 C17 C18 C19 C20; do
    VERIF_SEED=$seed ./bin/check $id --tier $tier > /tmp/vwork/all.$id.$seed.out 2>&1; rc=$?
    echo "seed=$seed rc=$rc $(tail -1 /tmp/vwork/all.$id.$seed.out)"
    grep -h "^VIOLATION\|^KNOWN" /tmp/vwork/all.$id.$seed.out | head -5
  done
done
